#!/usr/bin/env python3
"""Regenerates /verif/MANIFEST.json from the table below (single place to edit)."""
import json
from pathlib import Path

CLAIMS = {
 "C08": dict(
  text="spec/WeightedAlias.tla transcribes new() (validation, scaling, split loop, pairing loop with the two intrusive LIFO lists sharing the alias array, leftover fix-up), weights() and the two-draw sample(); TLC checks exhaustively, for every weight vector of length <=5 (thorough 6, design-only 7) over {0,1,2,3,MAX/len,MAX/len+1,negative,NaN} and MAX in {127,255,32767,65535}: Law (number of (column,threshold) tickets yielding i equals n*w_i), exact Reconstruction, documented verdict, list discipline, range, termination.  Every model vector is replayed on the real type for all 13 weight types (verdict, weights(), ticket counts by sweeping both draws with scripted RNG words); random vectors up to length 10^4 recorded from the real types are validated by TraceAlias.tla. FLOAT weights, law: for f32 and f64 tables (few-bit and full-mantissa weights) the threshold of every column is located by bisection on the second word of sample() and TraceFloatLaw.tla checks the exact two-word law against weight/total (2^-38 / 2^-18) in exact integers, and that a zero weight is never returned.",
  note="Exhaustive for the stated alphabet and lengths; wide types through the per-length two-scale MAX/len<->Q; ticket sweeps only for vectors of small weights; float reconstruction judged with a declared tolerance; rand's Uniform samplers are the trusted base (measured, not re-modelled).",
  tech="TLA+ spec + TLC exhaustive model checking (ticket counting); model vectors replayed into the implementation; trace validation of recorded constructions", ref="DESIGN.md §5 C08"),
 "C09": dict(
  text="spec/WeightedTree.tla (one action per public call, heap of subtotals + ghost weight list) is model-checked exhaustively by TLC over the full reachable graph for small alphabets (Canonical, Observers, StepProps = error-leaves-unchanged / InvalidWeight / Overflow-exact / pop-returns-last); bound to the code both ways: every TLC-generated history (exhaustive depth 4/5, simulated depth 12) is replayed on the real WeightedTreeIndex for all 13 weight types comparing result, pop value, len, is_empty, is_valid, every get(i) and == new(list) after every step, and random histories recorded from the real type are validated line by line by TraceTree.tla.",
  note="Exhaustive only for the stated alphabets/MaxLen; wide integer types are bound through the two-scale embedding (DESIGN 2.2); float weights only with small-integer values (exact).",
  tech="TLA+ spec + TLC exhaustive model checking; TLC-generated behaviours replayed into the implementation; implementation traces validated against the spec", ref="DESIGN.md §5 C09"),
 "C10": dict(
  text="The Law invariant (number of sampling targets mapped to index i equals weight i, in every reachable state of the C09 model, hence after any history) is model-checked by TLC; on the real type every replayed state has all its targets swept with scripted RNG words (ticket counts must equal the predicted weights), sample events in recorded traces must return SampleOutcome(sub,target), and float trees of adversarial shapes are validated against the rule valid => Ok(i), i<len, weight(i)>0, no panic. FLOAT weights, law: sample() consumes one word and the words returning index k form one interval of the word range; for 300 (thorough 5000) f32 and f64 trees per run - fresh and after update/push/pop histories, few-bit weights (no rounding anywhere) and full-mantissa weights - every change point is located by bisection and TraceFloatLaw.tla checks |len_k W - w_k 2^64| <= tol W 2^64 in exact integers (tol 2^-40 f64, 2^-19 f32), that the intervals partition the range and that a zero weight has an empty interval.",
  note="rand's word->target map is measured on a cloned stream (trusted base: rand 0.10.2). Float weights: the law is decided for the sampled trees only (lengths 2..20, weights in [2^-8, 16)); the assertion failure and the root residue of float trees are known findings.",
  tech="TLA+ spec + TLC exhaustive model checking (ticket counting); scripted-RNG target sweeps in replayed states; trace validation", ref="DESIGN.md §5 C10"),
}

NA = {
 "C01": "Continuous laws are statements about exp/ln/Gamma/erf-built CDFs over a continuum; TLC has neither reals nor those functions, and importing CDF values from Rust would make Rust the oracle (DESIGN §3, §5 C01).",
 "C13": "Kolmogorov distance to a CDF built from atan/exp/ln/pow cannot be evaluated by TLC; the order part (every one of the 2^24 outputs in the support) is decided under C03 (DESIGN §5 C13).",
}
ALL = ["C%02d" % i for i in range(1, 16)]
LEVEL = {}   # pid -> category override
HOOK_COMMITS = []

def main():
    here = Path(__file__).resolve().parent.parent
    extra = here / 'tools' / 'claims_extra.json'
    if extra.exists():
        e = json.loads(extra.read_text())
        CLAIMS.update(e.get('claims', {})); LEVEL.update(e.get('level', {})); HOOK_COMMITS.extend(e.get('hook_commits', []))
    checks = []
    for pid in sorted(CLAIMS):
        c = CLAIMS[pid]
        checks.append({"property_id": pid, "quick_cmd": "./check %s --tier quick" % pid,
                       "thorough_cmd": "./check %s --tier thorough" % pid,
                       "evidence_file": "/verif/evidence/%s.json" % pid,
                       "replay_cmd_template": "./check %s --replay {path}" % pid, "engine": "tla",
                       "level_claimed": {"category": LEVEL.get(pid, "model_checking"), "text": c['text'], "design_ref": c['ref']},
                       "level_note": c['note'], "technique": c['tech']})
    na = []
    for pid in ALL:
        if pid in CLAIMS:
            continue
        na.append({"property_id": pid, "reason": NA.get(pid, "check not built yet in this revision (planned, DESIGN §10); no claim is made")})
    m = {"version": 1, "setup_cmd": "cd /verif && ./setup.sh",
         "hooks": {"guard": "rand_distr_verif",
                   "enable": "harness/.cargo/config.toml sets rustflags --cfg rand_distr_verif (path dependency on /repo)",
                   "baseline_off_cmd": "cd /repo && cargo test --workspace --no-fail-fast --offline",
                   "source_commits": HOOK_COMMITS, "add_only": True},
         "engines": [{"name": "tla", "path": "/verif/spec", "serves_properties": sorted(CLAIMS),
                      "kind_free_text": "explicit TLA+ specifications checked with TLC; bound to the implementation by behaviour replay (harness `rdv`) and trace validation"}],
         "checks": checks, "not_applicable": na,
         "notes": "See DESIGN.md. Exit codes: 0 held / 1 VIOLATION / 2 tool error. ./check <ID> --tier quick|thorough"}
    (here / 'MANIFEST.json').write_text(json.dumps(m, indent=1))

if __name__ == '__main__':
    main()
