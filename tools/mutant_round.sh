#!/bin/bash
# mutant_round.sh <worktree> <pid> <k> [<k>...]: screens each change <worktree>/mutants/<k> on an isolated copy (tools/mutant_iso.py,
# in parallel), then confirms and files them one after the other (they share the worktree) with tools/mutant_eval.py, which takes
# the check outcome from the isolated run (MUTANT_ISO_RESULT).  /repo is never touched, so several properties can run at once.
wt=$1; pid=$2; shift 2
tag=$(basename $wt)
for k in "$@"; do python3 /verif/tools/mutant_iso.py $wt/mutants/$k $pid ${tag}_$k > /tmp/iso_${tag}_$k.json 2>&1 & done
wait
for k in "$@"; do
  git -C $wt checkout -q -- . ; rm -f $wt/tests/demo.rs
  MUTANT_ISO_RESULT=/tmp/iso_${tag}_$k.json python3 /verif/tools/mutant_eval.py $wt $k $pid > /tmp/file_${tag}_$k.log 2>&1
  python3 - <<PY
import json
try:
    d=json.load(open('/verif/seeded/$pid-$k/meta.json')); c=list(d['checks'].values())
    print('$pid-$k', 'confirmed=%s' % d['confirmation']['confirmed'], [(v['exit'], v['caught']) for v in c], str((c[0].get('first_finding') if c else None))[:300])
except Exception as e:
    print('$pid-$k', 'NOT FILED', e)
PY
done
rm -f /tmp/iso_${tag}_*.json
