#!/opt/veriftools/pyvenv/bin/python3
"""Generates spec/QuantileTable.tla: reference values of the DOCUMENTED cumulative distribution functions of the
one-uniform (inverse-CDF) samplers at anchor points, computed with mpmath at 60 digits.

For every case (family, dyadic parameters) and every anchor probability p the table holds
    x   = F^-1(p)                       (decimal string, 25 significant digits)
    lo  = floor(2^64 * F(x - d)),  hi = ceil(2^64 * F(x + d)),   d = 2^-20 * max(|x|, scale * 2^-10)
as limb triples (22 + 21 + 21 bits).  [lo, hi] brackets F at every float within relative 2^-20 of x, so the rule
of Quantile.tla absorbs the rounding of x to f32/f64 and of the sampler's own arithmetic without a tuned tolerance.

Run at authoring time (python3-vt tools/gen_quantile_table.py); the output is committed.  The checks do not run it."""
import sys
from mpmath import mp, mpf, atan, pi, exp, log, tan, floor, ceil, sqrt, power
mp.dps = 60

P = [mpf(2) ** -20, mpf(2) ** -10, mpf(1) / 64, mpf(1) / 4, mpf(1) / 2, mpf(3) / 4, mpf(63) / 64, 1 - mpf(2) ** -10, 1 - mpf(2) ** -20]
PN = ['2^-20', '2^-10', '1/64', '1/4', '1/2', '3/4', '63/64', '1-2^-10', '1-2^-20']


def cauchy(m, s):
    return (lambda x: mpf(1) / 2 + atan((x - m) / s) / pi), (lambda p: m + s * tan(pi * (p - mpf(1) / 2))), s


def pareto(sc, k):
    return (lambda x: 0 if x < sc else 1 - power(sc / x, k)), (lambda p: sc * power(1 - p, -1 / mpf(k))), sc


def weibull(sc, k):
    return (lambda x: 0 if x <= 0 else 1 - exp(-power(x / sc, k))), (lambda p: sc * power(-log(1 - p), 1 / mpf(k))), sc


def gumbel(mu, b):
    return (lambda x: exp(-exp(-(x - mu) / b))), (lambda p: mu - b * log(-log(p))), b


def frechet(m, s, a):
    return (lambda x: 0 if x <= m else exp(-power((x - m) / s, -a))), (lambda p: m + s * power(-log(p), -1 / mpf(a))), s


def triangular(lo, hi, mode):
    r = hi - lo

    def F(x):
        if x <= lo:
            return mpf(0)
        if x >= hi:
            return mpf(1)
        if x <= mode:
            return (x - lo) ** 2 / (r * (mode - lo))
        return 1 - (hi - x) ** 2 / (r * (hi - mode))

    def Q(p):
        fm = (mode - lo) / r
        if p < fm:
            return lo + sqrt(p * r * (mode - lo))
        return hi - sqrt((1 - p) * r * (hi - mode))
    return F, Q, r


T10, Tm10 = 1024.0, 1.0 / 1024
CASES = [
    ('Cauchy', [0, 1], cauchy), ('Cauchy', [1, 0.5], cauchy), ('Cauchy', [-3, 4], cauchy), ('Cauchy', [0, Tm10], cauchy), ('Cauchy', [0, T10], cauchy),
    ('Pareto', [1, 1], pareto), ('Pareto', [0.5, 2], pareto), ('Pareto', [4, 0.5], pareto), ('Pareto', [1, 20], pareto),
    ('Pareto', [Tm10, 1.5], pareto), ('Pareto', [T10, 3], pareto), ('Pareto', [1, 100], pareto), ('Pareto', [3, 0.75], pareto),
    ('Weibull', [1, 1], weibull), ('Weibull', [2, 0.5], weibull), ('Weibull', [0.25, 4], weibull), ('Weibull', [1, 20], weibull),
    ('Weibull', [Tm10, 1.5], weibull), ('Weibull', [T10, 0.75], weibull), ('Weibull', [3, 100], weibull), ('Weibull', [1, 2], weibull),
    ('Gumbel', [0, 1], gumbel), ('Gumbel', [-3, 0.5], gumbel), ('Gumbel', [1, 4], gumbel), ('Gumbel', [0, Tm10], gumbel), ('Gumbel', [0, T10], gumbel),
    ('Frechet', [0, 1, 1], frechet), ('Frechet', [1, 0.5, 2], frechet), ('Frechet', [-3, 2, 0.5], frechet), ('Frechet', [0, 1, 20], frechet),
    ('Frechet', [0, Tm10, 1.5], frechet), ('Frechet', [0, T10, 3], frechet), ('Frechet', [1, 1, 100], frechet), ('Frechet', [0, 3, 0.75], frechet),
    ('Triangular', [0, 1, 0.5], triangular), ('Triangular', [0, 1, 0], triangular), ('Triangular', [-1, 3, 3], triangular), ('Triangular', [-2, 6, 0], triangular),
    ('Weibull', [2, 1], weibull), ('Weibull', [0.5, 1], weibull), ('Pareto', [3, 1], pareto), ('Frechet', [0, 2, 1], frechet),
    ('Weibull', [3, 2], weibull), ('Weibull', [0.5, 3], weibull), ('Pareto', [3, 2], pareto), ('Pareto', [0.25, 3], pareto), ('Frechet', [1, 3, 2], frechet), ('Frechet', [0, 0.5, 3], frechet),
    ('Triangular', [0, 1, 0.125], triangular), ('Triangular', [-8, -4, -5], triangular), ('Triangular', [0, T10, 768], triangular), ('Triangular', [0, Tm10, Tm10 / 4], triangular),
    # scale far from 1 TOGETHER with a large shape (scale^shape is far outside the f32 range: a sampler that forms it would fail)
    ('Frechet', [0, Tm10, 20], frechet), ('Frechet', [1, T10, 25], frechet), ('Pareto', [Tm10, 20], pareto), ('Pareto', [T10, 25], pareto), ('Weibull', [Tm10, 20], weibull), ('Weibull', [T10, 25], weibull),
]


def thorough_cases():
    """quick cases plus a deterministic pseudo-random dyadic grid inside envelope E (f32 part): scales 2^-10..2^10,
    shapes k/8 in [0.5, 20] and a few large ones, locations in {0, +-1, +-3, 16}, Triangular with dyadic corners"""
    import random
    rnd = random.Random(20261003)
    cs = list(CASES)
    sc = lambda: 2.0 ** rnd.randint(-10, 10) * rnd.choice([1, 1, 1.5, 1.25])
    sh = lambda: rnd.choice([rnd.randint(4, 160) / 8.0, rnd.choice([0.5, 0.625, 1.0, 1.125, 2.0, 40.0, 64.0, 100.0])])
    loc = lambda: rnd.choice([0, 0, 1, -1, 3, -3, 16])
    for _ in range(20):
        cs.append(('Cauchy', [loc(), sc()], cauchy))
        cs.append(('Gumbel', [loc(), sc()], gumbel))
    for _ in range(25):
        cs.append(('Pareto', [sc(), sh()], pareto))
        cs.append(('Weibull', [sc(), sh()], weibull))
        cs.append(('Frechet', [loc(), sc(), sh()], frechet))
    for _ in range(25):
        a = rnd.randint(-64, 64) / 8.0; w = 2.0 ** rnd.randint(-6, 8); m = rnd.choice([0, 0, 1, 2, 3, 4, 5, 6, 7, 8, 8]) / 8.0
        cs.append(('Triangular', [a, a + w, a + w * m], triangular))
    return cs


def limbs(v):
    v = int(v)
    assert 0 <= v <= 1 << 64
    return '<<%d, %d, %d>>' % (v >> 42, (v >> 21) & 0x1fffff, v & 0x1fffff)


def table(cases):
    rows = []
    for ci, (fam, params, mk) in enumerate(cases):
        F, Q, scale = mk(*[mpf(x) for x in params])
        anchors = []
        for p, pn in zip(P, PN):
            x = Q(p)
            assert abs(F(x) - p) < mpf(10) ** -40, (fam, params, pn)
            d = mpf(2) ** -20 * max(abs(x), mpf(scale) * mpf(2) ** -10)
            lo = floor(mpf(2) ** 64 * F(x - d))
            hi = ceil(mpf(2) ** 64 * F(x + d))
            anchors.append('[p |-> "%s", x |-> "%s", lo |-> %s, hi |-> %s]' % (pn, mp.nstr(x, 25, strip_zeros=False, min_fixed=-1000, max_fixed=1000), limbs(lo), limbs(hi)))
        rows.append('  [id |-> %d, fam |-> "%s", params |-> <<%s>>,\n   anchors |-> <<\n     %s>>]' % (
            ci + 1, fam, ', '.join('"%s"' % repr(float(x)) for x in params), ',\n     '.join(anchors)))
    return ',\n'.join(rows)


def main(out):
    tc = thorough_cases()
    text = '''--------------------------- MODULE QuantileTable ---------------------------
(***************************************************************************)
(* GENERATED by tools/gen_quantile_table.py (mpmath, 60 digits) - do not   *)
(* edit.  Reference values of the documented CDFs of the one-uniform       *)
(* samplers: for anchor x = F^-1(p), [lo, hi] = 2^64 * [F(x-d), F(x+d)],   *)
(* d = 2^-20 max(|x|, scale 2^-10), as limb triples (22+21+21 bits).       *)
(* QTable: the quick tier's cases; QTableT: the thorough tier's (a         *)
(* superset: QTable plus a deterministic pseudo-random dyadic grid).       *)
(***************************************************************************)
QTable == <<
%s
>>

QTableT == <<
%s
>>
=============================================================================
''' % (table(CASES), table(tc))
    open(out, 'w').write(text)
    print('wrote', out, len(CASES), 'quick cases', len(tc), 'thorough cases')


if __name__ == '__main__':
    main(sys.argv[1] if len(sys.argv) > 1 else '/verif/spec/QuantileTable.tla')
