#!/usr/bin/env python3
"""mutant_eval.py <worktree> <k> <pid> [extra check ids...]
Confirms a seeded change (patch.diff + demo.rs under <worktree>/mutants/<k>/): applies cleanly, the
pinned test suite still passes with it, the demo fails with it and passes without it; then applies it
to /repo, runs ./check <pid> (quick), undoes it, and files everything under /verif/seeded/<pid>-<k>/."""
import json, os, shutil, subprocess, sys, time
from pathlib import Path

def sh(cmd, cwd=None, env=None, timeout=3600):
    e = dict(os.environ, CARGO_NET_OFFLINE='true')
    if env: e.update(env)
    p = subprocess.run(cmd, shell=True, cwd=cwd, env=e, stdout=subprocess.PIPE, stderr=subprocess.STDOUT, text=True, timeout=timeout)
    return p.returncode, p.stdout

def main():
    # form 2: mutant_eval.py --seeded <pid>-<k> [extra check ids]: re-run a kept change from /verif/seeded in a
    # scratch worktree of /repo's HEAD (created under /tmp and removed afterwards)
    if sys.argv[1] == '--seeded':
        name = sys.argv[2]; pid, k = name.split('-')
        wt = Path('/tmp/wt_scratch_' + name)
        sh('git -C /repo worktree remove --force %s' % wt)
        rc, out = sh('git -C /repo worktree add -q %s HEAD' % wt)
        (wt / 'mutants' / k).mkdir(parents=True, exist_ok=True)
        for f in ('patch.diff', 'demo.rs', 'meta.json', 'cargo_dev_dep.diff'):
            if (Path('/verif/seeded') / name / f).exists():
                shutil.copy(Path('/verif/seeded') / name / f, wt / 'mutants' / k / f)
        sys.argv = [sys.argv[0], str(wt), k, pid] + sys.argv[3:]
        try:
            main()
        finally:
            sh('git -C /repo worktree remove --force %s' % wt)
        return
    wt, k, pid = Path(sys.argv[1]), sys.argv[2], sys.argv[3]
    checks = [pid] + sys.argv[4:]
    md = wt / 'mutants' / k
    patch = md / 'patch.diff'
    tgt = {'CARGO_TARGET_DIR': str(wt / 'target')}
    feat = ' --features serde' if pid == 'C15' else ''
    res = {'property': pid, 'mutant': k}
    sh('git checkout -- . && rm -f tests/demo.rs', cwd=wt)
    devdep = md / 'cargo_dev_dep.diff'
    if devdep.exists():
        rc, out = sh('git apply %s' % devdep, cwd=wt); res['dev_dep_applied'] = rc == 0
    # clean tree: demo passes
    shutil.copy(md / 'demo.rs', wt / 'tests' / 'demo.rs')
    rc, out = sh('cargo test --offline%s --test demo 2>&1 | tail -15' % feat, cwd=wt, env=tgt)
    res['demo_passes_on_clean'] = ('test result: ok' in out)
    # mutant applied
    rc, out = sh('git apply %s' % patch, cwd=wt)
    res['applies'] = rc == 0
    rc, out = sh('cargo test --offline%s --test demo 2>&1 | tail -15' % feat, cwd=wt, env=tgt)
    res['demo_fails_on_mutant'] = ('test result: FAILED' in out) or ('panicked' in out) or ('error: test failed' in out)
    (wt / 'tests' / 'demo.rs').unlink()
    rc, out = sh('cargo test --workspace --no-fail-fast --offline 2>&1 | grep -E "^test result|FAILED|failed" ', cwd=wt, env=tgt)
    res['suite_passes_with_mutant'] = ('FAILED' not in out and 'failed;' in out and all(' 0 failed' in l for l in out.splitlines() if l.startswith('test result')))
    res['suite_summary'] = out.strip().splitlines()[:4]
    sh('git checkout -- . && rm -f tests/demo.rs', cwd=wt)
    confirmed = res['applies'] and res['demo_passes_on_clean'] and res['demo_fails_on_mutant'] and res['suite_passes_with_mutant']
    res['confirmed'] = confirmed
    # run our checks against it
    res['checks'] = {}
    iso = os.environ.get('MUTANT_ISO_RESULT')
    if confirmed and iso:
        # the check outcome was obtained by tools/mutant_iso.py (scratch worktree of /repo's HEAD with the patch + scratch copy of /verif
        # whose harness path dependencies point at it); used when several changes are evaluated at once and /repo cannot be shared
        d = json.load(open(iso))
        res['checks'][pid] = {kk: d.get(kk) for kk in ('exit', 'caught', 'wall_s', 'tail', 'first_finding')}
        res['checks'][pid]['via'] = 'tools/mutant_iso.py (isolated copy, /repo untouched)'
    elif confirmed:
        rc, out = sh('git -C /repo status --porcelain'); assert out.strip() == '', 'repo dirty: ' + out
        rc, out = sh('git -C /repo apply %s' % patch)
        try:
            for c in checks:
                t0 = time.time()
                rc, out = sh('./check %s --tier quick' % c, cwd='/verif', timeout=7200)
                viol = [l for l in out.splitlines() if l.startswith('VIOLATION')]
                res['checks'][c] = {'exit': rc, 'violation_lines': viol[:5], 'caught': rc == 1 and bool(viol), 'wall_s': round(time.time() - t0),
                                    'tail': out.strip().splitlines()[-3:]}
                # keep one replay file as illustration
                if viol:
                    rp = viol[0].split('replay=')[1].strip()
                    try:
                        d = json.load(open(rp)); f = d.get('finding', {})
                        res['checks'][c]['first_finding'] = {kk: f[kk] for kk in list(f)[:12] if kk not in ('behaviour', 'instance', 'detail', 'args')}
                    except Exception as ex:
                        res['checks'][c]['first_finding'] = str(ex)
        finally:
            sh('git -C /repo checkout -- .')
    dst = Path('/verif/seeded') / ('%s-%s' % (pid, k))
    dst.mkdir(parents=True, exist_ok=True)
    shutil.copy(patch, dst / 'patch.diff'); shutil.copy(md / 'demo.rs', dst / 'demo.rs')
    if devdep.exists(): shutil.copy(devdep, dst / 'cargo_dev_dep.diff')
    meta = json.load(open(md / 'meta.json')) if (md / 'meta.json').exists() else {}
    meta.update({'property': pid, 'confirmation': {kk: res[kk] for kk in ('applies', 'demo_passes_on_clean', 'demo_fails_on_mutant', 'suite_passes_with_mutant', 'suite_summary', 'confirmed')},
                 'what_i_ran': ['git apply patch.diff in a scratch worktree', 'cargo test --workspace --no-fail-fast --offline (with the change)', 'cargo test --offline --test demo (with and without the change)', ('tools/mutant_iso.py: the same patch on a scratch worktree of /repo HEAD, ./check <id> --tier quick in a scratch copy of /verif bound to it' if iso else 'git -C /repo apply patch.diff; ./check <id> --tier quick; git -C /repo checkout -- .')],
                 'checks': res['checks']})
    (dst / 'meta.json').write_text(json.dumps(meta, indent=1))
    print(json.dumps(res, indent=1))

if __name__ == '__main__':
    main()
