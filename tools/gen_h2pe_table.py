#!/opt/veriftools/pyvenv/bin/python3
"""Generates spec/H2peTable.tla for C02: pointwise statements about H2PE (Kachitvichyanukul & Schmeiser 1985) as used by
Hypergeometric when the mode is at least 10 above the lower end of the support.  Set-up as documented in the crate (reductions
to n1 <= n2 and k <= N/2; m = floor((k+1)(n1+1)/(N+2)); d = 1.5 sqrt((N-k) k n1 n2 / ((N-1) N N)) + 0.5; x_l = m - d + 0.5;
x_r = m + d + 0.5; tail constants from Stirling's ln v! with the crate's shift by 3; p1 = 2 d; p2, p3), mpmath 50 digits.
An anchor is a first word w1 with u = (w1 / 2^64) p3 <= p1 (region 1, the central bell): the proposal is y = floor(x_l + u)
and it is accepted iff v <= f(y) / f(m), f the hypergeometric pmf (exact rational, by the product recurrence) - the accepting
second words are a prefix of relative length f(y)/f(m).  `out` is the value the sampler returns after undoing the reductions.
Run at authoring time; output committed."""
import sys
from mpmath import mp, mpf, sqrt, floor, log, exp, pi
mp.dps = 50

# the last two: (k+1)(n1+1)/(N+2) lies just below an integer (14.75, 25.75), so that a mode computed with a neighbouring denominator differs
CASES = [(1000, 500, 500), (10000, 5000, 300), (40, 20, 20), (10000, 7000, 9000), (1 << 40, 1 << 39, 1000), (1000, 501, 500), (50000, 49900, 5300), (3000, 2700, 2880), (59, 29, 29), (103, 51, 51)]


def l14(v):
    v = int(v); out = []
    while True:
        out.append(v & 0x3fff); v >>= 14
        if v == 0:
            break
    return '<<%s>>' % ', '.join(map(str, out))


def lnfac(v):
    v3 = v + 3
    return (v3 + mpf('0.5')) * log(v3) - v3 + log(sqrt(2 * pi)) + 1 / (12 * v3) - log((v + 3) * (v + 2) * (v + 1))


def setup(N, K, ns):
    sign, off = 1, 0
    wo = N - K
    if K > wo:
        sign, off = -1, ns
        n1, n2 = wo, K
    else:
        n1, n2 = K, wo
    if ns <= N // 2:
        k = ns
    else:
        off += n1 * sign; sign *= -1; k = N - ns
    m = int(floor(mpf(k + 1) * (n1 + 1) / (N + 2)))
    assert m - max(0, k - n2) >= 10, 'HIN regime'
    a = lnfac(mpf(m)) + lnfac(mpf(n1 - m)) + lnfac(mpf(k - m)) + lnfac(mpf(n2 - k + m))
    d = mpf('1.5') * sqrt(mpf(N - k) * k * n1 * n2 / (mpf(N - 1) * N * N)) + mpf('0.5')
    x_l = m - d + mpf('0.5'); x_r = m + d + mpf('0.5')
    k_l = exp(a - lnfac(x_l) - lnfac(n1 - x_l) - lnfac(k - x_l) - lnfac(n2 - k + x_l))
    k_r = exp(a - lnfac(x_r - 1) - lnfac(n1 - x_r + 1) - lnfac(k - x_r + 1) - lnfac(n2 - k + x_r - 1))
    lam_l = -log(x_l * (n2 - k + x_l) / ((n1 - x_l + 1) * (k - x_l + 1)))
    lam_r = -log((n1 - x_r + 1) * (k - x_r + 1) / (x_r * (n2 - k + x_r)))
    p1 = 2 * d; p2 = p1 + k_l / lam_l; p3 = p2 + k_r / lam_r

    def ratio(y):                      # f(y) / f(m), exact product recurrence
        f = mpf(1)
        if m < y:
            for i in range(m + 1, y + 1):
                f *= mpf(n1 - i + 1) * (k - i + 1) / (mpf(i) * (n2 - k + i))
        else:
            for i in range(y + 1, m + 1):
                f *= mpf(i) * (n2 - k + i) / (mpf(n1 - i + 1) * (k - i + 1))
        return f
    return dict(n1=n1, n2=n2, k=k, m=m, sign=sign, off=off, x_l=x_l, x_r=x_r, p1=p1, p2=p2, p3=p3, lam_l=lam_l, lam_r=lam_r, ratio=ratio)


MAXA = 14


def build_rows():
    rows = []
    for ci, (N, K, ns) in enumerate(CASES):
        s = setup(N, K, ns)
        cand = []
        J = 1 << 14
        for j in range(1, J):
            u = mpf(j) / J * s['p3']
            if u > s['p1']:
                break
            x = s['x_l'] + u
            y = int(floor(x)); fr = x - y
            if fr < 0.25 or fr > 0.75:
                continue
            F = s['ratio'](y)
            if F < 0.03 or F > 0.97:
                continue
            cand.append((j, y, F))
        if len(cand) > MAXA:
            step = len(cand) / float(MAXA)
            cand = [cand[int(i * step)] for i in range(MAXA)]
        # regions 2 / 3 (exponential tails): y = floor(x_l + ln(v)/lambda_l) resp. floor(x_r - ln(v)/lambda_r); accepted iff
        # v (u - p1) lambda_l <= f(y)/f(m) resp. v (u - p2) lambda_r <= f(y)/f(m): the second words returning y form an interval
        rt = []
        for (reg, fu) in ((2, mpf('0.3')), (2, mpf('0.7')), (3, mpf('0.3')), (3, mpf('0.7'))):
            lo_u, hi_u = (s['p1'], s['p2']) if reg == 2 else (s['p2'], s['p3'])
            u = lo_u + fu * (hi_u - lo_u)
            j = int(floor(u / s['p3'] * (1 << 20))); u = mpf(j) / (1 << 20) * s['p3']
            if not (lo_u < u <= hi_u):
                continue
            for dy in (1, 3, 6):
                if reg == 2:
                    y = int(floor(s['x_l'])) - dy
                    if y < max(0, s['k'] - s['n2']):
                        continue
                    vlo = exp(s['lam_l'] * (y - s['x_l'])); vhi = exp(s['lam_l'] * (y + 1 - s['x_l']))
                    cap = s['ratio'](y) / ((u - s['p1']) * s['lam_l'])
                else:
                    y = int(floor(s['x_r'])) + dy
                    if y > min(s['n1'], s['k']):
                        continue
                    vhi = exp(-s['lam_r'] * (y - s['x_r'])); vlo = exp(-s['lam_r'] * (y + 1 - s['x_r']))
                    cap = s['ratio'](y) / ((u - s['p2']) * s['lam_r'])
                lo, hi = vlo, min(vhi, cap)
                if hi - lo < mpf(2) ** -30 or hi > 1:
                    continue
                rt.append((j << 44, s['off'] + s['sign'] * y, (lo + hi) / 2, lo, hi))
        at = ',\n      '.join('[w1 |-> "%d", out |-> %d, probe |-> "%d", lo |-> %s, hi |-> %s]' % (w1, o, int(floor(pr * 2 ** 64)), l14(floor(lo * 2 ** 64)), l14(floor(hi * 2 ** 64))) for (w1, o, pr, lo, hi) in rt)
        anchors = ',\n      '.join('[w1 |-> "%d", out |-> %d, dy |-> %d, frac |-> %s]' % (j << 50, s['off'] + s['sign'] * y, y - s['m'], l14(floor(F * 2 ** 64))) for (j, y, F) in cand)
        rows.append('  [id |-> %d, N |-> "%d", K |-> "%d", n |-> "%d", m |-> %d,\n   r1 |-> <<\n      %s>>,\n   rt |-> <<\n      %s>>]' % (ci + 1, N, K, ns, s['m'], anchors, at))
    return rows


def main(out):
    global CASES, MAXA
    rows_quick = build_rows()
    CASES = CASES + [(43, 21, 21), (2000, 1000, 400), (100000, 30000, 20000), (500, 250, 250), (20000, 19000, 15000), (1 << 30, 1 << 29, 5000), (300, 150, 100)]
    MAXA = 40
    rows_thorough = build_rows()
    text = '''----------------------------- MODULE H2peTable -----------------------------
(***************************************************************************)
(* GENERATED by tools/gen_h2pe_table.py (mpmath, 50 digits) - do not edit. *)
(* H2PE region-1 anchors: first word w1 (decimal), the value returned when *)
(* the proposal is accepted, its distance dy from the mode, and the        *)
(* accepted fraction f(y)/f(m) of the second word, floor(2^64 .) as        *)
(* base-2^14 limbs.                                                        *)
(***************************************************************************)
EXTENDS Integers
HTab == <<
%s
>>

HTabT == <<
%s
>>
=============================================================================
''' % (',\n'.join(rows_quick), ',\n'.join(rows_thorough))
    open(out, 'w').write(text)
    print('wrote', out)


if __name__ == '__main__':
    main(sys.argv[1] if len(sys.argv) > 1 else '/verif/spec/H2peTable.tla')
