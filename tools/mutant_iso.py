#!/usr/bin/env python3
"""mutant_iso.py <mutant dir> <pid> <name> [base commit] : evaluates a seeded change WITHOUT touching /repo: a scratch worktree of
/repo's HEAD gets the patch, a scratch copy of /verif gets its harness path dependencies pointed at that worktree,
and ./check <pid> --tier quick runs there.  Used to screen many changes in parallel; kept changes are confirmed
against /repo itself with tools/mutant_eval.py."""
import json, os, shutil, subprocess, sys, time
from pathlib import Path

def sh(cmd, cwd=None, timeout=7200):
    e = dict(os.environ, CARGO_NET_OFFLINE='true')
    p = subprocess.run(cmd, shell=True, cwd=cwd, env=e, stdout=subprocess.PIPE, stderr=subprocess.STDOUT, text=True, timeout=timeout)
    return p.returncode, p.stdout

def main():
    md, pid, name = Path(sys.argv[1]).resolve(), sys.argv[2], sys.argv[3]
    base = Path('/tmp/mv_' + name)
    sh('git -C /repo worktree remove --force %s/repo' % base); shutil.rmtree(base, ignore_errors=True)
    base.mkdir(parents=True)
    # optional 4th argument: the commit the change was written against (when a later fix: commit replaced the code it edits)
    rc, out = sh('git -C /repo worktree add -q %s/repo %s' % (base, sys.argv[4] if len(sys.argv) > 4 else 'HEAD'))
    rc, out = sh('git apply %s' % (md / 'patch.diff'), cwd=base / 'repo')
    res = {'name': name, 'property': pid, 'applies': rc == 0}
    sh('rsync -a --exclude .git --exclude .work --exclude target --exclude replays --exclude seeded /verif/ %s/verif/' % base)
    for c in ('harness', 'harness-serde'):
        f = base / 'verif' / c / 'Cargo.toml'
        f.write_text(f.read_text().replace('path = "/repo"', 'path = "%s/repo"' % base))
    t0 = time.time()
    rc, out = sh('./check %s --tier quick' % pid, cwd=base / 'verif')
    viol = [l for l in out.splitlines() if l.startswith('VIOLATION')]
    res.update({'exit': rc, 'caught': rc == 1 and bool(viol), 'wall_s': round(time.time() - t0), 'tail': out.strip().splitlines()[-3:]})
    if viol:
        try:
            pth = viol[0].split('replay=')[1].strip(); d = json.load(open(pth if pth.startswith(str(base)) else pth.replace('/verif/', str(base / 'verif') + '/', 1)))
            f = d.get('finding', {}); res['first_finding'] = {k: f[k] for k in list(f)[:10] if k not in ('behaviour', 'instance', 'detail', 'args', 'event')}
        except Exception as ex:
            res['first_finding'] = str(ex)
    sh('git -C /repo worktree remove --force %s/repo' % base); shutil.rmtree(base, ignore_errors=True)
    print(json.dumps(res, indent=1))

if __name__ == '__main__':
    main()
