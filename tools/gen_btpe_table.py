#!/opt/veriftools/pyvenv/bin/python3
"""Generates spec/BtpeTable.tla for C02: pointwise statements about BTPE (Kachitvichyanukul & Schmeiser 1988) as used by
Binomial for n min(p,1-p) >= 10.  All constants follow the paper's / the crate's documented set-up (m = floor(np + p),
p1 = floor(2.195 sqrt(npq) - 4.6 q) + 0.5, x_m = m + 0.5, c = 0.134 + 20.5/(15.3 + m), p2 = p1 (1 + 2c), tails lambda_l,
lambda_r, p3, p4), evaluated with mpmath (50 digits).  An anchor is a first word w1 (u = (w1 / 2^64) p4):
  region 2 (parallelograms, p1 < u <= p2): x = x_l + (u - p1)/c, y = floor(x); the proposal is accepted iff
      v c + 1 - |x - x_m| / p1 <= f(y) / f(m),   v uniform,
      so the accepted second words are a prefix of relative length A = (f(y)/f(m) - 1 + |x - x_m|/p1) / c, with f the
      binomial pmf itself (exact rational) - the statement that makes BTPE exact in this region;
  region 1 (triangle, u <= p1): always accepted, y = floor(x_m - p1 v + u): the second words with y >= j have relative
      length (x_m + u - j) / p1.
Run at authoring time; output committed."""
import sys
from mpmath import mp, mpf, sqrt, floor, binomial, power, exp
mp.dps = 50

# the last three: frac(n p) >= 1 - p, so that the mode floor(n p + p) differs from floor(n p)
CASES = [(40, 0.5), (1000, 0.5), (400, 0.25), (100, 0.75), (4096, 0.125), (64, 0.375), (27, 0.4375), (251, 0.46875), (1003, 0.25)]


def l14(v):
    v = int(v); out = []
    while True:
        out.append(v & 0x3fff); v >>= 14
        if v == 0:
            break
    return '<<%s>>' % ', '.join(map(str, out))


def setup(n, p0):
    flipped = p0 > 0.5
    p = mpf(1) - mpf(p0) if flipped else mpf(p0)
    q = 1 - p
    np_ = n * p; npq = np_ * q
    p1 = floor(mpf('2.195') * sqrt(npq) - mpf('4.6') * q) + mpf('0.5')
    f_m = np_ + p; m = int(floor(f_m))
    x_m = m + mpf('0.5'); x_l = x_m - p1; x_r = x_m + p1
    c = mpf('0.134') + mpf('20.5') / (mpf('15.3') + m)
    p2 = p1 * (1 + 2 * c)
    lam = lambda a: a * (1 + a / 2)
    ll = lam((f_m - x_l) / (f_m - x_l * p)); lr = lam((x_r - f_m) / (x_r * q))
    p3 = p2 + c / ll; p4 = p3 + c / lr
    pmf = lambda y: binomial(n, y) * power(p, y) * power(q, n - y)
    return dict(flipped=flipped, p=p, q=q, m=m, p1=p1, x_m=x_m, x_l=x_l, x_r=x_r, c=c, p2=p2, p3=p3, p4=p4, pmf=pmf)


MAXA = 14


def build_rows():
    rows = []
    for ci, (n, p0) in enumerate(CASES):
        s = setup(n, p0)
        fm = s['pmf'](s['m'])
        r2 = []; r1 = []
        J = 1 << 14
        for j in range(1, J):
            phi = mpf(j) / J
            u = phi * s['p4']
            if u > s['p1'] and u <= s['p2']:
                x = s['x_l'] + (u - s['p1']) / s['c']
                y = int(floor(x))
                fr = x - y
                if fr < 0.25 or fr > 0.75 or y < 0 or y > n:
                    continue
                A = (s['pmf'](y) / fm - 1 + abs(x - s['x_m']) / s['p1']) / s['c']
                if A < 0.04 or A > 0.96:
                    continue
                r2.append((j, y, A))
        # spread: at most 14 anchors, evenly over the candidates (both sides of the mode, near and far)
        if len(r2) > MAXA:
            step = len(r2) / float(MAXA)
            r2 = [r2[int(i * step)] for i in range(MAXA)]
        for j in (J // 97, J // 41, J // 23):
            phi = mpf(j) / J; u = phi * s['p4']
            if u <= s['p1'] * mpf('0.98'):
                top = s['x_m'] + u
                js = []
                for yy in (int(floor(top)) - 1, int(floor(top)) - 3, s['m'] + 1, s['m'] - 2):
                    frac = (top - yy) / s['p1']
                    if 0 < frac < 1 and yy not in [a for a, _ in js]:
                        js.append((yy, frac))
                r1.append((j, js))
        # regions 3 / 4 (exponential tails): for the first word (u) the proposal depends on the second uniform v:
        #   region 3: y = floor(x_l + ln(v)/lambda_l), accepted iff v (u - p2) lambda_l <= f(y)/f(m)
        #   region 4: y = floor(x_r - ln(v)/lambda_r), accepted iff v (u - p3) lambda_r <= f(y)/f(m)
        # so the second words that return a given y form the interval  [v_lo(y), min(v_hi(y), F(y)/((u - p_i) lambda))): anchors give a probe
        # word inside it and its two ends
        lam = lambda a: a * (1 + a / 2)
        f_m = n * s['p'] + s['p']
        ll = lam((f_m - s['x_l']) / (f_m - s['x_l'] * s['p'])); lr = lam((s['x_r'] - f_m) / (s['x_r'] * s['q']))
        rt = []
        for (reg, frac_u) in ((3, mpf('0.3')), (3, mpf('0.7')), (4, mpf('0.3')), (4, mpf('0.7'))):
            lo_u, hi_u = (s['p2'], s['p3']) if reg == 3 else (s['p3'], s['p4'])
            u = lo_u + frac_u * (hi_u - lo_u)
            j = int(floor(u / s['p4'] * (1 << 20)))
            u = mpf(j) / (1 << 20) * s['p4']
            if not (lo_u < u <= hi_u):
                continue
            for dy in (1, 3, 6):
                if reg == 3:
                    y = int(floor(s['x_l'])) - dy
                    if y < 0:
                        continue
                    vlo = exp(ll * (y - s['x_l'])); vhi = exp(ll * (y + 1 - s['x_l']))
                    cap = s['pmf'](y) / fm / ((u - s['p2']) * ll)
                else:
                    y = int(floor(s['x_r'])) + dy
                    if y > n:
                        continue
                    vhi = exp(-lr * (y - s['x_r'])); vlo = exp(-lr * (y + 1 - s['x_r']))      # y = floor(x_r - ln v / lr): larger v, smaller y
                    cap = s['pmf'](y) / fm / ((u - s['p3']) * lr)
                lo, hi = vlo, min(vhi, cap)
                if reg == 4:
                    # out == y for v in (vlo, vhi]; accepted iff v <= cap
                    pass
                if hi - lo < mpf(2) ** -30 or hi > 1:
                    continue
                probe = (lo + hi) / 2
                rt.append((j << 44, y, probe, lo, hi))
        at = ',\n      '.join('[w1 |-> "%d", y |-> %d, probe |-> "%d", lo |-> %s, hi |-> %s]' % (w1, y, int(floor(pr * 2 ** 64)), l14(floor(lo * 2 ** 64)), l14(floor(hi * 2 ** 64))) for (w1, y, pr, lo, hi) in rt)
        a2 = ',\n      '.join('[w1 |-> "%d", y |-> %d, frac |-> %s]' % (j << 50, y, l14(floor(A * 2 ** 64))) for (j, y, A) in r2)
        a1 = ',\n      '.join('[w1 |-> "%d", js |-> <<%s>>]' % (j << 50, ', '.join('[j |-> %d, cnt |-> %s]' % (yy, l14(floor(fr * 2 ** 64))) for yy, fr in js)) for (j, js) in r1)
        rows.append('  [id |-> %d, n |-> %d, p |-> "%s", flipped |-> %s, m |-> %d,\n   r2 |-> <<\n      %s>>,\n   r1 |-> <<\n      %s>>,\n   rt |-> <<\n      %s>>]' % (
            ci + 1, n, repr(float(p0)), 'TRUE' if s['flipped'] else 'FALSE', s['m'], a2, a1, at))
    return rows


# huge n with a moderate mode (n p about 10^3): the set-up is as above, f(y)/f(m) by the product of the pmf ratios
# (y - m terms); n, m as decimal strings, the proposal as dy = y - m.  Only region 2, anchors on both sides of
# |y - m| = 20 (where the crate changes from the recursion to the squeeze and the Stirling-series test).
HUGE = [(2 ** 40, 2.0 ** -30), (2 ** 60, 2.0 ** -50)]
HUGE_T = HUGE + [(2 ** 50, 1.5 * 2.0 ** -40), (2 ** 62, 3 * 2.0 ** -55), (2 ** 33, 1.0 / 3.0 * 2.0 ** -22), (2 ** 53, 2.0 ** -42), (10 ** 12, 2e-9)]


def build_huge(cases, maxa):
    rows = []
    for ci, (n, p0) in enumerate(cases):
        p = mpf(p0); q = 1 - p
        np_ = n * p; npq = np_ * q
        p1 = floor(mpf('2.195') * sqrt(npq) - mpf('4.6') * q) + mpf('0.5')
        f_m = np_ + p; m = int(floor(f_m))
        x_m = m + mpf('0.5'); x_l = x_m - p1; x_r = x_m + p1
        c = mpf('0.134') + mpf('20.5') / (mpf('15.3') + m)
        p2 = p1 * (1 + 2 * c)
        lam = lambda a: a * (1 + a / 2)
        ll = lam((f_m - x_l) / (f_m - x_l * p)); lr = lam((x_r - f_m) / (x_r * q))
        p4 = p2 + c / ll + c / lr

        def ratio(y):               # f(y) / f(m)
            r = mpf(1)
            if y > m:
                for i in range(m + 1, y + 1):
                    r *= mpf(n - i + 1) / i * p / q
            else:
                for i in range(y + 1, m + 1):
                    r /= mpf(n - i + 1) / i * p / q
            return r
        r2 = []
        J = 1 << 14
        for j in range(1, J):
            u = mpf(j) / J * p4
            if u > p1 and u <= p2:
                x = x_l + (u - p1) / c
                y = int(floor(x)); fr = x - y
                if fr < 0.25 or fr > 0.75 or y < 0:
                    continue
                A = (ratio(y) - 1 + abs(x - x_m) / p1) / c
                if A < 0.04 or A > 0.96:
                    continue
                r2.append((j, y - m, A))
        if len(r2) > maxa:
            step = len(r2) / float(maxa)
            r2 = [r2[int(i * step)] for i in range(maxa)]
        a2 = ',\n      '.join('[w1 |-> "%d", dy |-> %d, frac |-> %s]' % (j << 50, dy, l14(floor(A * 2 ** 64))) for (j, dy, A) in r2)
        rows.append('  [id |-> %d, n |-> "%d", p |-> "%s", m |-> "%d",\n   r2 |-> <<\n      %s>>]' % (ci + 1, n, repr(float(p0)), m, a2))
    return rows


# granularity probes: n so large that the mode exceeds 2^53 (the last one is a control: mode 2^53, every integer representable)
GRAN = [(2 ** 62, 0.5), (2 ** 60, 0.25), (2 ** 55, 0.5), (2 ** 54, 0.5)]


def main(out):
    global CASES, MAXA
    huge_q = build_huge(HUGE, 14); huge_t = build_huge(HUGE_T, 40)
    rows_quick = build_rows()
    CASES = CASES + [(250, 0.5), (10000, 0.25), (2000, 0.875), (33, 0.4375), (100000, 0.03125), (512, 0.5), (1000, 0.3), (500, 0.07), (77, 0.69)]
    MAXA = 40
    rows_thorough = build_rows()
    text = '''----------------------------- MODULE BtpeTable -----------------------------
(***************************************************************************)
(* GENERATED by tools/gen_btpe_table.py (mpmath, 50 digits) - do not edit. *)
(* BTPE anchors: first word w1 (decimal), expected proposal y and accepted *)
(* fraction of the second word in region 2, expected counts of second      *)
(* words with y >= j in region 1; floor(2^64 .) as base-2^14 limbs.        *)
(***************************************************************************)
EXTENDS Integers
BTab == <<
%s
>>

BTabT == <<
%s
>>

\* huge n, moderate mode: n, m as decimal strings, proposal as dy = y - m (region 2 only)
BTabH == <<
%s
>>

BTabHT == <<
%s
>>

\* granularity probes (the values returned over random streams must not all be even)
BTabG == <<
%s
>>
=============================================================================
''' % (',\n'.join(rows_quick), ',\n'.join(rows_thorough), ',\n'.join(huge_q), ',\n'.join(huge_t),
       ',\n'.join('  [id |-> %d, n |-> "%d", p |-> "%s"]' % (i + 1, n, repr(p)) for i, (n, p) in enumerate(GRAN)))
    open(out, 'w').write(text)
    print('wrote', out, len(rows_quick), len(rows_thorough))


if __name__ == '__main__':
    main(sys.argv[1] if len(sys.argv) > 1 else '/verif/spec/BtpeTable.tla')
