//! Binding of spec/WeightedAlias.tla to rand_distr::weighted::WeightedAliasIndex (C08).
use crate::rng::{ScriptRng, Sm};
use crate::tw::*;
use crate::util::*;
use rand::distr::{Distribution, Uniform};
use rand_distr::weighted::{AliasableWeight, Error as WErr, WeightedAliasIndex};
use serde_json::{json, Value};
use std::io::{BufRead, Write};

fn err_name(e: &WErr) -> &'static str {
    match e {
        WErr::InvalidInput => "InvalidInput",
        WErr::InvalidWeight => "InvalidWeight",
        WErr::InsufficientNonZero => "InsufficientNonZero",
        WErr::Overflow => "Overflow",
        _ => "OtherError",
    }
}

pub trait AW: TW + AliasableWeight {
    fn max_div(len: usize) -> Self;
    fn succ(self) -> Option<Self>;
    fn pred_by(self, d: u64) -> Self;
    fn close(a: Self, b: Self, len: usize, sum: Self) -> bool;
    fn dist_to_q(self, len: usize) -> Option<i64>;
}
macro_rules! aw_int { ($($t:ty),*) => { $(
    impl AW for $t {
        fn max_div(len: usize) -> Self { if (len as u128) <= (<$t>::MAX as u128) { <$t>::MAX / (len as $t) } else { 0 } }
        fn succ(self) -> Option<Self> { self.checked_add(1) }
        fn pred_by(self, d: u64) -> Self { if (self as u128) >= d as u128 { self - (d as $t) } else { 0 } }
        fn close(a: Self, b: Self, _len: usize, _sum: Self) -> bool { a == b }
        fn dist_to_q(self, len: usize) -> Option<i64> {
            let q = Self::max_div(len);
            if self > q { if self - q == 1 { Some(-1) } else { None } }
            else { let d = q - self; if (d as u128) < 100000 { Some(d as i64) } else { None } }
        }
    } )* } }
aw_int!(u8, i8, u16, i16, u32, i32, u64, i64, u128, i128, usize);
macro_rules! aw_float { ($($t:ty),*) => { $(
    impl AW for $t {
        fn max_div(len: usize) -> Self { <$t>::MAX / (len as $t) }
        fn succ(self) -> Option<Self> { let n = self * (1.0 + 4.0 * <$t>::EPSILON); if n.is_finite() { Some(n) } else { None } }
        fn pred_by(self, d: u64) -> Self { self * (1.0 - (d as $t) * 4.0 * <$t>::EPSILON) }
        fn close(a: Self, b: Self, len: usize, sum: Self) -> bool {
            let scale = if b > sum / (len as $t) { b } else { sum / (len as $t) };
            (a - b).abs() <= (8.0 + 4.0 * len as $t) * <$t>::EPSILON * scale
        }
        fn dist_to_q(self, _len: usize) -> Option<i64> { None }
    } )* } }
aw_float!(f32, f64);

/// model value -> native weight for a vector of length `len`:
/// 0..=3 identity; Q = m/len -> W::MAX/len; Q+1 -> the next larger value
fn from_model_alias<W: AW>(v: i64, m: i64, len: usize) -> Option<W> {
    if v < 0 { return W::from_model(v, m); }
    if W::max_i128() == m as i128 && !W::IS_FLOAT {
        return if (v as i128) <= W::max_i128() { Some(W::from_u64(v as u64)) } else { None };
    }
    if W::max_i128() < m as i128 { return None; }
    let q = m / len as i64;
    if v == q { Some(W::max_div(len)) }
    else if v == q + 1 { W::max_div(len).succ() }
    else if v <= 3 { Some(W::from_u64(v as u64)) }
    else { None }
}

#[derive(Default)]
struct Stats { vectors: u64, runs: u64, skipped: u64, sweeps: u64, tickets: u64, nmis: u64, mis: Vec<Value>, tool_errors: Vec<String>, sigs: std::collections::BTreeMap<String, u64>, per_verdict: std::collections::BTreeMap<String, u64> }

fn rec(st: &mut Stats, ty: &str, beh: &Value, what: &str, got: String, want: String) {
    st.nmis += 1;
    let c = st.sigs.entry(format!("{}:{}", ty, what)).or_default();
    *c += 1;
    if *c <= 3 && st.mis.len() < 40 { st.mis.push(json!({"property": "C08", "type": ty, "what": what, "got": got, "want": want, "behaviour": beh})); }
}

/// find scripted words for which `probe` returns `want` consuming exactly `nw` words
fn find_words<W: TW>(total: u128, kk: u128, want_model: i64, probe: &dyn Fn(&mut ScriptRng) -> W) -> Option<Vec<u64>> {
    let cands = crate::tree::sweep_words::<W>(total);
    let base = cands[kk as usize].clone();
    for bump in 0..3u64 {
        let mut ws = base.clone();
        if bump > 0 {
            // next larger word of the sample type
            if W::SAMPLE_BITS == 32 || (W::IS_FLOAT && W::SAMPLE_BITS == 23) { ws[0] = ws[0].wrapping_add(bump << 32); }
            else { ws[0] = ws[0].wrapping_add(bump); }
        }
        let mut r = ScriptRng::new(ws.clone(), 1);
        let v = probe(&mut r);
        let vm = if W::IS_FLOAT { v.as_f64().floor() as i64 } else { v.to_model(i64::MAX) };
        if vm == want_model && r.words() == ws.len() as u64 { return Some(ws); }
    }
    None
}

fn replay_one<W: AW>(beh: &Value, m: i64, st: &mut Stats, do_sweep: bool)
where Uniform<W>: Clone {
    let wv: Vec<i64> = beh["w"].as_array().unwrap().iter().map(|x| x.as_i64().unwrap()).collect();
    let len = wv.len();
    let native: Option<Vec<W>> = wv.iter().map(|&v| from_model_alias::<W>(v, m, len.max(1))).collect();
    let Some(native) = native else { st.skipped += 1; return; };
    st.runs += 1;
    let ty = W::NAME;
    let want_verdict = beh["verdict"].as_str().unwrap();
    let built = match guarded(|| WeightedAliasIndex::<W>::new(native.clone())) {
        Err(p) => { rec(st, ty, beh, "new panics", p, want_verdict.to_string()); return; }
        Ok(Err(e)) => { if err_name(&e) != want_verdict { rec(st, ty, beh, "verdict", err_name(&e).to_string(), want_verdict.to_string()); } return; }
        Ok(Ok(d)) => { if want_verdict != "Ok" { rec(st, ty, beh, "verdict", "Ok".into(), want_verdict.to_string()); return; } d }
    };
    // coarse law for float weights at the documented maximum MAX/len (the exact ticket sweep needs small totals):
    // entries equal to Q = MAX/len share the mass equally, entries in {0..3} are negligible next to them (1e-300);
    // K thresholds per column, one ticket may move per column
    let qm = m / len.max(1) as i64;
    if do_sweep && W::IS_FLOAT && len >= 2 && wv.iter().any(|&v| v == qm) && wv.iter().all(|&v| v == qm || v <= 3) {
        let nq = wv.iter().filter(|&&v| v == qm).count() as u64;
        const K: u64 = 128;
        let ucol = Uniform::<u32>::new(0u32, len as u32).unwrap();
        let mut counts = vec![0u64; len]; let mut ok = true;
        for c in 0..len {
            let Some(cw) = find_words::<u32>(len as u128, c as u128, c as i64, &|r| ucol.sample(r)) else { ok = false; break };
            for k in 0..K {
                let frac = (k as f64 + 0.5) / K as f64;
                let tw: u64 = if W::SAMPLE_BITS == 23 { (((frac * (1u64 << 23) as f64) as u64) << 9) << 32 } else { ((frac * (1u64 << 52) as f64) as u64) << 12 };
                let mut pre = cw.clone(); pre.push(tw);
                let mut rng = ScriptRng::new(pre, 1);
                match guarded(|| built.sample(&mut rng)) { Ok(i) if i < len => counts[i] += 1, Ok(i) => { rec(st, ty, beh, "sample out of range", i.to_string(), format!("< {}", len)); return; } Err(p) => { rec(st, ty, beh, "sample panics", p, "index".into()); return; } }
            }
        }
        if ok {
            st.sweeps += 1; st.tickets += K * len as u64;
            let tol = len as u64 + 2;
            for i in 0..len {
                let want = if wv[i] == qm { K * len as u64 / nq } else { 0 };
                if counts[i] > want + tol || counts[i] + tol < want {
                    rec(st, ty, beh, "coarse law at MAX/len", format!("{:?}", counts), format!("index {} expected about {} of {}", i, want, K * len as u64)); return;
                }
            }
        }
    }
    // reconstruction
    let sum_native: W = AliasableWeight::sum(&native);
    match guarded(|| built.weights()) {
        Err(p) => { rec(st, ty, beh, "weights() panics", p, "the input vector".into()); return; }
        Ok(rw) => {
            if rw.len() != native.len() || !rw.iter().zip(native.iter()).all(|(&a, &b)| W::close(a, b, len, sum_native)) {
                let nonfinite = rw.iter().any(|x| { let f = x.as_f64(); !f.is_finite() });
                let at_max = native.iter().any(|&x| x.as_f64() >= W::max_div(len).as_f64() * 0.999999);
                let what = if nonfinite && at_max { "weights() non-finite for a weight at MAX/len" } else if nonfinite { "weights() non-finite" } else { "weights() reconstruction" };
                rec(st, ty, beh, what, format!("{:?}", rw), format!("{:?}", native)); return;
            }
        }
    }
    // ticket sweep
    let s_model = beh["sum"].as_i64().unwrap();
    if do_sweep && wv.iter().all(|&v| v <= 3) && (len as i64) * s_model <= 4000 {
        let tickets: Vec<u64> = beh["tickets"].as_array().unwrap().iter().map(|x| x.as_u64().unwrap()).collect();
        let ucol = Uniform::<u32>::new(0u32, len as u32).unwrap();
        let uthr = Uniform::<W>::new(<W as AliasableWeight>::ZERO, W::from_u64(s_model as u64)).unwrap();
        let mut colw = vec![];
        for c in 0..len { match find_words::<u32>(len as u128, c as u128, c as i64, &|r| ucol.sample(r)) { Some(w) => colw.push(w), None => { st.tool_errors.push(format!("no column word n={} c={}", len, c)); return; } } }
        let mut thrw = vec![];
        for t in 0..s_model { match find_words::<W>(s_model as u128, t as u128, t, &|r| uthr.clone().sample(r)) { Some(w) => thrw.push(w), None => { st.tool_errors.push(format!("no threshold word {} S={} t={}", ty, s_model, t)); return; } } }
        let mut counts = vec![0u64; len];
        let mut guard_ok = true;
        for cw in &colw { for tw in &thrw {
            let mut pre = cw.clone(); pre.extend_from_slice(tw);
            let nw = pre.len() as u64;
            let mut rng = ScriptRng::new(pre, 1);
            match guarded(|| built.sample(&mut rng)) {
                Ok(i) => { if rng.words() != nw { guard_ok = false; } if i < len { counts[i] += 1; } else { rec(st, ty, beh, "sample out of range", i.to_string(), format!("< {}", len)); return; } }
                Err(p) => { rec(st, ty, beh, "sample panics", p, "index".into()); return; }
            }
        } }
        st.sweeps += 1; st.tickets += (len as u64) * s_model as u64;
        if guard_ok {
            if counts != tickets { rec(st, ty, beh, "ticket counts", format!("{:?}", counts), format!("{:?}", tickets)); }
        } else {
            // not the documented two-draw design: only the zero-weight rule is judged
            for (i, &c) in counts.iter().enumerate() { if c > 0 && wv[i] == 0 { rec(st, ty, beh, "zero-weight index returned", i.to_string(), "never".into()); return; } }
        }
    }
}

pub fn replay(args: &[String]) -> i32 {
    let m = arg_i64(args, "--m", 255);
    let do_sweep = !args.iter().any(|a| a == "--no-sweep");
    let only = arg_val(args, "--only");
    let mut passf = arg_val(args, "--passthrough").map(|p| std::fs::File::create(p).unwrap());
    let mut st = Stats::default();
    let mut sample: Option<Value> = None;
    for line in std::io::stdin().lock().lines() {
        let Ok(line) = line else { break };
        let payload = if line.starts_with('{') { Some(line.clone()) } else { tlc_payload(&line, "REPLAY") };
        let Some(p) = payload else { if let Some(f) = passf.as_mut() { let _ = writeln!(f, "{}", line); } continue; };
        let beh: Value = match serde_json::from_str(&p) { Ok(v) => v, Err(e) => { st.tool_errors.push(format!("json {}", e)); continue; } };
        st.vectors += 1;
        *st.per_verdict.entry(beh["verdict"].as_str().unwrap_or("?").to_string()).or_default() += 1;
        if sample.is_none() || st.vectors % 4001 == 0 { sample = Some(beh.clone()); }
        macro_rules! go { ($W:ident) => { if only.as_deref().map(|o| o == <$W as TW>::NAME).unwrap_or(true) { replay_one::<$W>(&beh, m, &mut st, do_sweep); } } }
        crate::for_each_tw!(W, { go!(W); });
    }
    println!("{}", json!({"tool": "alias-replay", "m": m, "vectors": st.vectors, "runs": st.runs, "skipped_unrepresentable": st.skipped,
        "sweeps": st.sweeps, "tickets": st.tickets, "mismatch_count": st.nmis, "mismatches": st.mis, "tool_errors": st.tool_errors,
        "per_verdict": st.per_verdict, "mismatch_sigs": st.sigs, "sample": sample}));
    0
}

// ---------------------------------------------------------------------------
// impl -> spec: random vectors with adversarial magnitude mixes, recorded for TraceAlias.tla
// Integer types only (exact); values are logged in the per-length two-scale:
// v <= 100000 as is, W::MAX/len - d as Q - d, W::MAX/len + 1 as Q + 1 with Q = M / len.
fn to_scale<W: AW>(x: W, m: i64, len: usize) -> i64 {
    #[allow(unused_comparisons)]
    if x < <W as AliasableWeight>::ZERO { return -1; }
    if W::max_i128() == m as i128 { return x.to_model(m); }
    let v = x.to_model(i64::MAX);
    if v != UNMAPPABLE && v <= 100000 && (v as i128) < W::max_i128() / (2 * len as i128).max(1) { return v; }
    match x.dist_to_q(len) { Some(d) => m / len as i64 - d, None => -98 }
}

fn drive_one<W: AW>(m: i64, seed: u64, nvec: usize, maxlen: usize, out: &mut Vec<String>) {
    let mut rnd = Sm(seed);
    for _ in 0..nvec {
        let len = match rnd.below(10) { 0 => rnd.below(4) as usize, 1..=6 => 1 + rnd.below(12) as usize, 7 | 8 => 1 + rnd.below(200) as usize, _ => 1 + rnd.below(maxlen as u64) as usize };
        let q = W::max_div(len.max(1));
        let shape = rnd.below(7);
        let hot = rnd.below(len.max(1) as u64) as usize;
        let v: Vec<W> = (0..len).map(|i| {
            let small = W::from_u64(rnd.below(4));
            match shape {
                0 => small,                                             // all small
                1 => if i == hot { q } else { <W as AliasableWeight>::ZERO },                // single non-zero at the maximum
                2 => if i == hot { q.pred_by(rnd.below(3)) } else { W::from_u64(rnd.below(2)) }, // one huge + many tiny
                3 => W::from_u64(1),                                    // all equal
                4 => if rnd.below(3) == 0 { q.pred_by(rnd.below(50)) } else { small },   // several near the maximum
                5 => if i == hot && rnd.below(2) == 0 { q.succ().unwrap_or(q) } else { small }, // one just above
                _ => if W::max_i128() > 100000 * len as i128 { W::from_u64(rnd.below(100000)) } else { small },
            }
        }).collect();
        let r = guarded(|| WeightedAliasIndex::<W>::new(v.clone()));
        let (verdict, rw): (String, Vec<i64>) = match r {
            Err(p) => (format!("Panic: {}", p), vec![]),
            Ok(Err(e)) => (err_name(&e).to_string(), vec![]),
            Ok(Ok(d)) => match guarded(|| d.weights()) { Ok(rw) => ("Ok".into(), rw.iter().map(|&x| to_scale(x, m, len)).collect()), Err(p) => (format!("Panic in weights(): {}", p), vec![]) },
        };
        out.push(json!({"op": "alias", "ty": W::NAME, "len": len, "w": v.iter().map(|&x| to_scale(x, m, len)).collect::<Vec<_>>(), "verdict": verdict, "rw": rw}).to_string());
    }
}

/// float vectors (not small integers): verdict from class flags, reconstruction error in units of
/// eps * max(w_i, S/len) (a tolerance, declared as such in DESIGN C08)
fn drive_float<F: AW + num_traits::Float>(seed: u64, nvec: usize, maxlen: usize, out: &mut Vec<String>) {
    let mut rnd = Sm(seed);
    let eps = F::epsilon().as_f64();
    for _ in 0..nvec {
        let len = match rnd.below(10) { 0 => rnd.below(3) as usize, 1..=7 => 1 + rnd.below(16) as usize, _ => 1 + rnd.below(maxlen as u64) as usize };
        let shape = rnd.below(8);
        let hot = rnd.below(len.max(1) as u64) as usize;
        let u = |rnd: &mut Sm| rnd.below(1 << 30) as f64 / (1u64 << 30) as f64;
        let v: Vec<F> = (0..len).map(|i| {
            let x = match shape {
                0 => 10f64.powf(-8.0 + 16.0 * u(&mut rnd)),
                1 => if i == hot { 1.0e30 } else { 1.0e-30 * (1.0 + u(&mut rnd)) },
                2 => 0.1,
                3 => if i == hot { 1.0 } else { 0.0 },
                4 => if rnd.below(6) == 0 { -u(&mut rnd) } else { u(&mut rnd) },
                5 => if rnd.below(6) == 0 { f64::NAN } else { u(&mut rnd) },
                6 => if i == hot { -0.0 } else { 0.0 },
                _ => u(&mut rnd) * 1000.0,
            };
            F::from(x).unwrap()
        }).collect();
        let q = F::max_div(len.max(1));
        let flags = json!({"empty": len == 0, "nan": v.iter().any(|x| x.is_nan()), "neg": v.iter().any(|&x| x < F::zero()),
            "big": v.iter().any(|&x| x > q), "allzero": v.iter().all(|&x| x == F::zero())});
        let r = guarded(|| WeightedAliasIndex::<F>::new(v.clone()));
        let (verdict, err): (String, i64) = match r {
            Err(p) => (format!("Panic: {}", p), 0),
            Ok(Err(e)) => (err_name(&e).to_string(), 0),
            Ok(Ok(d)) => match guarded(|| d.weights()) {
                Ok(rw) => {
                    let s: f64 = v.iter().map(|x| x.as_f64()).sum();
                    let mut worst = 0f64;
                    for (a, b) in rw.iter().zip(v.iter()) {
                        let scale = b.as_f64().max(s / len as f64);
                        let e = (a.as_f64() - b.as_f64()).abs() / (eps * scale);
                        if !(e <= worst) { worst = if e.is_nan() { 1e9 } else { e.max(worst) }; }
                    }
                    ("Ok".into(), if rw.len() != v.len() { 1_000_000_000 } else { worst.min(1e9).ceil() as i64 })
                }
                Err(p) => (format!("Panic in weights(): {}", p), 0),
            },
        };
        out.push(json!({"op": "falias", "ty": F::NAME, "len": len, "flags": flags, "verdict": verdict, "err": err,
            "head": v.iter().take(8).map(|x| format!("{:e}", x.as_f64())).collect::<Vec<_>>()}).to_string());
    }
}

pub fn drive(args: &[String]) -> i32 {
    let m = arg_i64(args, "--m", 255);
    let seed = arg_u64(args, "--seed", 1);
    let nvec = arg_u64(args, "--vectors", 200) as usize;
    let maxlen = arg_u64(args, "--maxlen", 2000) as usize;
    let types = arg_val(args, "--types").unwrap_or_default();
    let outp = arg_val(args, "--out").unwrap();
    let mut out = vec![];
    let mut k = 0u64;
    macro_rules! go { ($W:ident) => { if types.split(',').any(|t| t == <$W as TW>::NAME) { k += 1; drive_one::<$W>(m, seed.wrapping_mul(77).wrapping_add(k), nvec, maxlen, &mut out); } } }
    if types.split(',').any(|t| t == "f32") { drive_float::<f32>(seed ^ 0xf32, nvec, maxlen, &mut out); }
    if types.split(',').any(|t| t == "f64") { drive_float::<f64>(seed ^ 0xf64, nvec, maxlen, &mut out); }
    go!(u8); go!(i8); go!(u16); go!(i16); go!(u32); go!(i32); go!(u64); go!(i64); go!(u128); go!(i128); go!(usize);
    let mut f = std::io::BufWriter::new(std::fs::File::create(&outp).unwrap());
    for l in &out { writeln!(f, "{}", l).unwrap(); }
    println!("{}", json!({"tool": "alias-drive", "m": m, "events": out.len(), "types": types}));
    0
}
