use std::panic::{self, AssertUnwindSafe};
use std::sync::Mutex;

pub static LAST_PANIC: Mutex<String> = Mutex::new(String::new());
thread_local! { pub static IN_GUARD: std::cell::Cell<bool> = const { std::cell::Cell::new(false) }; }

pub fn install_quiet_panic_hook() {
    panic::set_hook(Box::new(|info| {
        let msg = if let Some(s) = info.payload().downcast_ref::<&str>() {
            s.to_string()
        } else if let Some(s) = info.payload().downcast_ref::<String>() {
            s.clone()
        } else {
            "panic".to_string()
        };
        let loc = info.location().map(|l| format!("{}:{}", l.file(), l.line())).unwrap_or_default();
        if !IN_GUARD.with(|g| g.get()) {
            eprintln!("HARNESS PANIC (tool error): {} @ {}", msg, loc);
        }
        if let Ok(mut g) = LAST_PANIC.lock() {
            *g = format!("{} @ {}", msg, loc);
        }
    }));
}

/// Run `f`, turning a panic of the code under test into data.
pub fn guarded<T>(f: impl FnOnce() -> T) -> Result<T, String> {
    let prev = IN_GUARD.with(|g| g.replace(true));
    let r = panic::catch_unwind(AssertUnwindSafe(f));
    IN_GUARD.with(|g| g.set(prev));
    match r {
        Ok(v) => Ok(v),
        Err(_) => Err(LAST_PANIC.lock().map(|g| g.clone()).unwrap_or_default()),
    }
}

/// Parse one line of TLC output of the form  <<"TAG", "escaped json">>  -> json text
pub fn tlc_payload<'a>(line: &'a str, tag: &str) -> Option<String> {
    let pre = format!("<<\"{}\", \"", tag);
    let l = line.trim_end();
    if !l.starts_with(&pre) || !l.ends_with("\">>") {
        return None;
    }
    let body = &l[pre.len()..l.len() - 3];
    let mut out = String::with_capacity(body.len());
    let mut it = body.chars();
    while let Some(c) = it.next() {
        if c == '\\' {
            match it.next() {
                Some('"') => out.push('"'),
                Some('\\') => out.push('\\'),
                Some('n') => out.push('\n'),
                Some('t') => out.push('\t'),
                Some(o) => { out.push('\\'); out.push(o); }
                None => {}
            }
        } else {
            out.push(c);
        }
    }
    Some(out)
}

pub fn arg_val(args: &[String], key: &str) -> Option<String> {
    args.iter().position(|a| a == key).and_then(|p| args.get(p + 1).cloned())
}
pub fn arg_u64(args: &[String], key: &str, default: u64) -> u64 {
    arg_val(args, key).and_then(|v| v.parse().ok()).unwrap_or(default)
}
pub fn arg_i64(args: &[String], key: &str, default: i64) -> i64 {
    arg_val(args, key).and_then(|v| v.parse().ok()).unwrap_or(default)
}
