//! Registry of distribution values (family x float type x parameter point of envelope E,
//! covering every internal representation) behind one object-safe interface.  Used by the
//! object model (C14/C15), support (C03), budget (C05) and composition (C07/C11) drivers.
use crate::rng::ScriptRng;
use rand_distr::multi::{Dirichlet, MultiDistribution};
use rand_distr::weighted::{WeightedAliasIndex, WeightedTreeIndex};
use rand_distr::*;
use std::any::Any;
use std::fmt::Debug;

/// one sample: kind of the scalar(s) and their bit patterns
#[derive(Clone, Debug, PartialEq)]
pub struct Out { pub kind: &'static str, pub bits: Vec<u64> }

pub trait IntoOut { fn into_out(self) -> Out; }
impl IntoOut for f32 { fn into_out(self) -> Out { Out { kind: "f32", bits: vec![self.to_bits() as u64] } } }
impl IntoOut for f64 { fn into_out(self) -> Out { Out { kind: "f64", bits: vec![self.to_bits()] } } }
impl IntoOut for u64 { fn into_out(self) -> Out { Out { kind: "u64", bits: vec![self] } } }
impl IntoOut for usize { fn into_out(self) -> Out { Out { kind: "usize", bits: vec![self as u64] } } }
impl<const N: usize> IntoOut for [f32; N] { fn into_out(self) -> Out { Out { kind: "f32", bits: self.iter().map(|x| x.to_bits() as u64).collect() } } }
impl<const N: usize> IntoOut for [f64; N] { fn into_out(self) -> Out { Out { kind: "f64", bits: self.iter().map(|x| x.to_bits()).collect() } } }
impl IntoOut for Vec<f32> { fn into_out(self) -> Out { Out { kind: "f32", bits: self.iter().map(|x| x.to_bits() as u64).collect() } } }
impl IntoOut for Vec<f64> { fn into_out(self) -> Out { Out { kind: "f64", bits: self.iter().map(|x| x.to_bits()).collect() } } }

#[cfg(feature = "with_serde")]
pub trait Ser: serde::Serialize + serde::de::DeserializeOwned {}
#[cfg(feature = "with_serde")]
impl<T: serde::Serialize + serde::de::DeserializeOwned> Ser for T {}
#[cfg(not(feature = "with_serde"))]
pub trait Ser {}
#[cfg(not(feature = "with_serde"))]
impl<T> Ser for T {}

/// serialise and deserialise a value: JSON first; values JSON cannot carry (non-finite floats
/// become null) go through TOML; a format limitation is never reported as a defect of the crate
#[cfg(feature = "with_serde")]
pub fn round<D: Ser>(d: &D) -> Result<D, String> {
    let j = serde_json::to_string(d).map_err(|e| format!("json ser: {}", e));
    let via_json: Result<D, String> = j.and_then(|s| serde_json::from_str::<D>(&s).map_err(|e| format!("json de: {} in {}", e, s)));
    match via_json {
        Ok(x) => Ok(x),
        Err(je) => {
            let t = toml::to_string(d).map_err(|e| format!("{}; toml ser: {}", je, e))?;
            toml::from_str::<D>(&t).map_err(|e| format!("{}; toml de: {}", je, e))
        }
    }
}

pub trait Obj: Any {
    /// C15: None = the type has no serde impl
    fn roundtrip(&self) -> Option<Result<Box<dyn Obj>, String>> { None }
    /// a mutating method of the type (WeightedTreeIndex::update); false = the type is immutable
    fn mutate(&mut self) -> bool { false }
    /// a second value constructed from the current (possibly mutated) parameters, where those are exactly observable
    fn rebuild_equal(&self) -> Option<Box<dyn Obj>> { None }
    fn sample(&self, r: &mut ScriptRng) -> Out;
    fn sample_iter(&self, r: &mut ScriptRng, k: usize) -> Vec<Out>;
    fn clone_obj(&self) -> Box<dyn Obj>;
    /// Clone::clone_from into this (existing) value; false when `src` is of another type (the caller then uses clone_obj)
    fn clone_from_obj(&mut self, src: &dyn Obj) -> bool;
    /// None when the type has no PartialEq
    fn eq_obj(&self, o: &dyn Obj) -> Option<bool>;
    fn dbg(&self) -> String;
    fn as_any(&self) -> &dyn Any;
}

pub struct W<D, T>(pub D, pub std::marker::PhantomData<T>);
impl<D, T> Obj for W<D, T>
where D: Distribution<T> + Clone + PartialEq + Debug + Ser + 'static, T: IntoOut + 'static {
    #[cfg(feature = "with_serde")]
    fn roundtrip(&self) -> Option<Result<Box<dyn Obj>, String>> { Some(round(&self.0).map(|d| Box::new(W(d, std::marker::PhantomData::<T>)) as Box<dyn Obj>)) }
    fn sample(&self, r: &mut ScriptRng) -> Out { self.0.sample(r).into_out() }
    fn sample_iter(&self, r: &mut ScriptRng, k: usize) -> Vec<Out> { (&self.0).sample_iter(r).take(k).map(|x| x.into_out()).collect() }
    fn clone_obj(&self) -> Box<dyn Obj> { Box::new(W(self.0.clone(), std::marker::PhantomData::<T>)) }
    fn clone_from_obj(&mut self, src: &dyn Obj) -> bool { match src.as_any().downcast_ref::<W<D, T>>() { Some(x) => { self.0.clone_from(&x.0); true } None => false } }
    fn eq_obj(&self, o: &dyn Obj) -> Option<bool> { o.as_any().downcast_ref::<W<D, T>>().map(|x| x.0 == self.0) }
    fn dbg(&self) -> String { format!("{:?}", self.0) }
    fn as_any(&self) -> &dyn Any { self }
}
/// types without PartialEq (WeightedAliasIndex)
pub struct WN<D, T>(pub D, pub std::marker::PhantomData<T>);
impl<D, T> Obj for WN<D, T>
where D: Distribution<T> + Clone + Debug + Ser + 'static, T: IntoOut + 'static {
    #[cfg(feature = "with_serde")]
    fn roundtrip(&self) -> Option<Result<Box<dyn Obj>, String>> { Some(round(&self.0).map(|d| Box::new(WN(d, std::marker::PhantomData::<T>)) as Box<dyn Obj>)) }
    fn sample(&self, r: &mut ScriptRng) -> Out { self.0.sample(r).into_out() }
    fn sample_iter(&self, r: &mut ScriptRng, k: usize) -> Vec<Out> { (&self.0).sample_iter(r).take(k).map(|x| x.into_out()).collect() }
    fn clone_obj(&self) -> Box<dyn Obj> { Box::new(WN(self.0.clone(), std::marker::PhantomData::<T>)) }
    fn clone_from_obj(&mut self, src: &dyn Obj) -> bool { match src.as_any().downcast_ref::<WN<D, T>>() { Some(x) => { self.0.clone_from(&x.0); true } None => false } }
    fn eq_obj(&self, _o: &dyn Obj) -> Option<bool> { None }
    fn dbg(&self) -> String { format!("{:?}", self.0) }
    fn as_any(&self) -> &dyn Any { self }
}
/// types without a serde impl (Zipf, Zeta): no Ser bound, roundtrip() = None
pub struct WX<D, T>(pub D, pub std::marker::PhantomData<T>);
impl<D, T> Obj for WX<D, T>
where D: Distribution<T> + Clone + PartialEq + Debug + 'static, T: IntoOut + 'static {
    fn sample(&self, r: &mut ScriptRng) -> Out { self.0.sample(r).into_out() }
    fn sample_iter(&self, r: &mut ScriptRng, k: usize) -> Vec<Out> { (&self.0).sample_iter(r).take(k).map(|x| x.into_out()).collect() }
    fn clone_obj(&self) -> Box<dyn Obj> { Box::new(WX(self.0.clone(), std::marker::PhantomData::<T>)) }
    fn clone_from_obj(&mut self, src: &dyn Obj) -> bool { match src.as_any().downcast_ref::<WX<D, T>>() { Some(x) => { self.0.clone_from(&x.0); true } None => false } }
    fn eq_obj(&self, o: &dyn Obj) -> Option<bool> { o.as_any().downcast_ref::<WX<D, T>>().map(|x| x.0 == self.0) }
    fn dbg(&self) -> String { format!("{:?}", self.0) }
    fn as_any(&self) -> &dyn Any { self }
}
fn bx<D, T>(d: D) -> Option<Box<dyn Obj>> where D: Distribution<T> + Clone + PartialEq + Debug + 'static, T: IntoOut + 'static {
    Some(Box::new(WX(d, std::marker::PhantomData::<T>)))
}

/// WeightedTreeIndex: the one mutable distribution type of the crate
pub struct WTree<Wt: crate::tw::TW + Ser>(pub WeightedTreeIndex<Wt>) where WeightedTreeIndex<Wt>: Ser;
impl<Wt: crate::tw::TW + Ser> Obj for WTree<Wt> where WeightedTreeIndex<Wt>: Ser {
    #[cfg(feature = "with_serde")]
    fn roundtrip(&self) -> Option<Result<Box<dyn Obj>, String>> { Some(round(&self.0).map(|d| Box::new(WTree(d)) as Box<dyn Obj>)) }
    fn mutate(&mut self) -> bool {
        // idempotent: set weight 0 to the constant 7 (an increase for most registry trees, a decrease for some)
        if self.0.len() == 0 { return false; }
        self.0.update(0, Wt::from_u64(7)).is_ok()
    }
    fn rebuild_equal(&self) -> Option<Box<dyn Obj>> {
        if Wt::IS_FLOAT { return None; }      // get(i) is exact only for integer weights
        let ws: Vec<Wt> = (0..self.0.len()).map(|i| self.0.get(i)).collect();
        WeightedTreeIndex::<Wt>::new(ws.iter()).ok().map(|t| Box::new(WTree(t)) as Box<dyn Obj>)
    }
    fn sample(&self, r: &mut ScriptRng) -> Out { self.0.sample(r).into_out() }
    fn sample_iter(&self, r: &mut ScriptRng, k: usize) -> Vec<Out> { (&self.0).sample_iter(r).take(k).map(|x| x.into_out()).collect() }
    fn clone_obj(&self) -> Box<dyn Obj> { Box::new(WTree(self.0.clone())) }
    fn clone_from_obj(&mut self, src: &dyn Obj) -> bool { match src.as_any().downcast_ref::<WTree<Wt>>() { Some(x) => { self.0.clone_from(&x.0); true } None => false } }
    fn eq_obj(&self, o: &dyn Obj) -> Option<bool> { o.as_any().downcast_ref::<WTree<Wt>>().map(|x| x.0 == self.0) }
    fn dbg(&self) -> String { format!("{:?}", self.0) }
    fn as_any(&self) -> &dyn Any { self }
}
fn bt<Wt: crate::tw::TW + Ser>(t: WeightedTreeIndex<Wt>) -> Option<Box<dyn Obj>> where WeightedTreeIndex<Wt>: Ser { Some(Box::new(WTree(t))) }

/// Dirichlet: a MultiDistribution (sample via the Vec-returning API)
pub struct WD32(pub Dirichlet<f32>);
pub struct WD64(pub Dirichlet<f64>);
macro_rules! wd_impl { ($f:ty, $WD:ident) => {
impl Obj for $WD {
    // Dirichlet carries serde_as attributes but derives neither Serialize nor Deserialize: no serde impl
    fn sample(&self, r: &mut ScriptRng) -> Out { Distribution::<Vec<$f>>::sample(&self.0, r).into_out() }
    // sample_to_slice into ONE re-used buffer that starts out dirty: the result must not depend on its previous contents
    fn sample_iter(&self, r: &mut ScriptRng, k: usize) -> Vec<Out> { let mut v = vec![0.625 as $f; self.0.sample_len()]; (0..k).map(|_| { self.0.sample_to_slice(r, &mut v); v.clone().into_out() }).collect() }
    fn clone_obj(&self) -> Box<dyn Obj> { Box::new($WD(self.0.clone())) }
    fn clone_from_obj(&mut self, src: &dyn Obj) -> bool { match src.as_any().downcast_ref::<$WD>() { Some(x) => { self.0.clone_from(&x.0); true } None => false } }
    fn eq_obj(&self, o: &dyn Obj) -> Option<bool> { o.as_any().downcast_ref::<$WD>().map(|x| x.0 == self.0) }
    fn dbg(&self) -> String { format!("{:?}", self.0) }
    fn as_any(&self) -> &dyn Any { self }
} } }
wd_impl!(f32, WD32); wd_impl!(f64, WD64);

pub struct Entry {
    pub family: &'static str,
    pub ft: &'static str,          // "f32" | "f64" | "int"
    pub params: Vec<f64>,
    pub variant: &'static str,     // internal representation the point is meant to exercise
    pub make: Box<dyn Fn() -> Option<Box<dyn Obj>>>,
}
impl Entry { pub fn label(&self) -> String { format!("{}<{}>{:?}", self.family, self.ft, self.params) } }

pub fn b<D, T>(d: D) -> Option<Box<dyn Obj>> where D: Distribution<T> + Clone + PartialEq + Debug + Ser + 'static, T: IntoOut + 'static {
    Some(Box::new(W(d, std::marker::PhantomData::<T>)))
}

fn bn<D, T>(d: D) -> Option<Box<dyn Obj>> where D: Distribution<T> + Clone + Debug + Ser + 'static, T: IntoOut + 'static {
    Some(Box::new(WN(d, std::marker::PhantomData::<T>)))
}

macro_rules! ent { ($v:ident, $fam:expr, $ft:expr, $var:expr, [$($p:expr),*], $mk:expr) => {
    $v.push(Entry { family: $fam, ft: $ft, params: vec![$($p as f64),*], variant: $var, make: Box::new(move || crate::util::guarded(|| $mk).ok().flatten()) });
} }

/// entries for one float type
macro_rules! float_entries { ($v:ident, $F:ty, $ft:expr, $WD:ident) => {{
    type F = $F;
    let ulp_up = |x: F| F::from_bits(x.to_bits() + 1);
    let ulp_dn = |x: F| F::from_bits(x.to_bits() - 1);
    let big_l: F = if $ft == "f32" { 1e6 } else { 1e12 };
    let tiny_s: F = if $ft == "f32" { 1e-6 } else { 1e-12 };
    ent!($v, "StandardNormal", $ft, "-", [], bn::<_, F>(StandardNormal));
    ent!($v, "Exp1", $ft, "-", [], bn::<_, F>(Exp1));
    ent!($v, "UnitCircle", $ft, "-", [], bn::<_, [F; 2]>(UnitCircle));
    ent!($v, "UnitDisc", $ft, "-", [], bn::<_, [F; 2]>(UnitDisc));
    ent!($v, "UnitSphere", $ft, "-", [], bn::<_, [F; 3]>(UnitSphere));
    ent!($v, "UnitBall", $ft, "-", [], bn::<_, [F; 3]>(UnitBall));
    for (m, s) in [(0.0 as F, 1.0 as F), (3.0, -2.0), (big_l, tiny_s), (-5.0, 0.0), (-big_l, 1.0 / tiny_s)] {
        ent!($v, "Normal", $ft, "-", [m, s], Normal::<F>::new(m, s).ok().and_then(b::<_, F>)); }
    for (m, s) in [(0.0 as F, 1.0 as F), (2.0, 0.5), (0.0, 0.0), (-3.0, 4.0), (10.0, 0.25)] {
        ent!($v, "LogNormal", $ft, "-", [m, s], LogNormal::<F>::new(m, s).ok().and_then(b::<_, F>)); }
    for l in [1.0 as F, tiny_s, 1.0 / tiny_s, 0.37] {
        ent!($v, "Exp", $ft, "-", [l], Exp::<F>::new(l).ok().and_then(b::<_, F>)); }
    for (k, t, var) in [(0.25 as F, 1.0 as F, "Small"), (ulp_dn(1.0), 1.0, "Small"), (1.0, 2.0, "One"), (ulp_up(1.0), 1.0, "Large"),
                        (2.5, 0.5, "Large"), (2.5, 0.75, "Large"), (2.625, 0.5, "Large"), (1e4, 1e-3, "Large"), (0.5, 1.0 / tiny_s, "Small"), (3.0, tiny_s, "Large")] {
        ent!($v, "Gamma", $ft, var, [k, t], Gamma::<F>::new(k, t).ok().and_then(b::<_, F>)); }
    for (k, var) in [(0.5 as F, "DoFAnythingElse"), (1.0, "DoFExactlyOne"), (2.0, "DoFAnythingElse"), (1.5, "DoFAnythingElse"), (3.0, "DoFAnythingElse"), (100.0, "DoFAnythingElse"), (2e4, "DoFAnythingElse")] {
        ent!($v, "ChiSquared", $ft, var, [k], ChiSquared::<F>::new(k).ok().and_then(b::<_, F>)); }
    for k in [0.5 as F, 1.0, 2.0, 5.0, 1e4] {
        ent!($v, "StudentT", $ft, "-", [k], StudentT::<F>::new(k).ok().and_then(b::<_, F>)); }
    for (m, n) in [(1.0 as F, 1.0 as F), (2.0, 2.0), (0.5, 10.0), (10.0, 3.0), (100.0, 0.5)] {
        ent!($v, "FisherF", $ft, "-", [m, n], FisherF::<F>::new(m, n).ok().and_then(b::<_, F>)); }
    for (a, bb, var) in [(0.5 as F, 0.5 as F, "BC"), (1.0, 1.0, "BC"), (2.0, 3.0, "BB"), (2.0, 3.125, "BB"), (3.0, 2.0, "BB"), (0.01, 0.02, "BC"), (1e3, 1e3, "BB"),
                         (0.5, 2.0, "BC"), (2.0, 0.5, "BC"), (1.0, 3.0, "BC"), (ulp_up(1.0), 1.5, "BB"), (100.0, 0.05, "BC")] {
        ent!($v, "Beta", $ft, var, [a, bb], Beta::<F>::new(a, bb).ok().and_then(b::<_, F>)); }
    for (mn, mx, md, sh) in [(0.0 as F, 1.0 as F, 0.5 as F, 4.0 as F), (-5.0, 5.0, -5.0, 4.0), (0.0, 10.0, 10.0, 4.0), (0.0, 1.0, 0.3, 0.0), (2.0, 3.0, 2.5, 100.0), (-big_l, big_l, 0.0, 4.0)] {
        ent!($v, "Pert", $ft, "-", [mn, mx, md, sh], Pert::<F>::new(mn, mx).with_shape(sh).with_mode(md).ok().and_then(b::<_, F>)); }
    for (mn, mx, md) in [(0.0 as F, 1.0 as F, 0.5 as F), (0.0, 1.0, 0.0), (0.0, 1.0, 1.0), (-3.0, 7.0, 2.0), (1.0, 1.0, 1.0), (-big_l, big_l, 1.0), (0.1, 0.3, 0.2)] {
        ent!($v, "Triangular", $ft, "-", [mn, mx, md], Triangular::<F>::new(mn, mx, md).ok().and_then(b::<_, F>)); }
    for (m, s) in [(0.0 as F, 1.0 as F), (5.0, 1e-3), (-big_l, 1.0 / tiny_s), (big_l, tiny_s)] {
        ent!($v, "Cauchy", $ft, "-", [m, s], Cauchy::<F>::new(m, s).ok().and_then(b::<_, F>)); }
    for (m, s) in [(0.0 as F, 1.0 as F), (-3.0, 0.5), (big_l, tiny_s), (-big_l, 1.0 / tiny_s)] {
        ent!($v, "Gumbel", $ft, "-", [m, s], Gumbel::<F>::new(m, s).ok().and_then(b::<_, F>)); }
    for (sc, sh) in [(1.0 as F, 1.0 as F), (tiny_s, 0.5), (3.0, 100.0), (1.0 / tiny_s, 2.0)] {
        ent!($v, "Pareto", $ft, "-", [sc, sh], Pareto::<F>::new(sc, sh).ok().and_then(b::<_, F>)); }
    for (l, sc, sh) in [(0.0 as F, 1.0 as F, 1.0 as F), (-2.0, 3.0, 0.5), (10.0, 1e-3, 100.0), (big_l, tiny_s, 2.0)] {
        ent!($v, "Frechet", $ft, "-", [l, sc, sh], Frechet::<F>::new(l, sc, sh).ok().and_then(b::<_, F>)); }
    for (sc, sh) in [(1.0 as F, 1.0 as F), (2.0, 0.1), (1.0 / tiny_s, 100.0), (1.0, 0.5), (tiny_s, 3.0)] {
        ent!($v, "Weibull", $ft, "-", [sc, sh], Weibull::<F>::new(sc, sh).ok().and_then(b::<_, F>)); }
    for (l, sc, sh) in [(0.0 as F, 1.0 as F, 0.0 as F), (0.0, 1.0, 1.0), (0.0, 1.0, -1.0), (3.0, 2.0, 5.0), (-1.0, 0.5, -1000.0), (big_l, tiny_s, 1000.0)] {
        ent!($v, "SkewNormal", $ft, "-", [l, sc, sh], SkewNormal::<F>::new(l, sc, sh).ok().and_then(b::<_, F>)); }
    for (m, l) in [(1.0 as F, 1.0 as F), (1e-3, 1e3), (1e3, 1e-3), (2.0, 5.0)] {
        ent!($v, "InverseGaussian", $ft, "-", [m, l], InverseGaussian::<F>::new(m, l).ok().and_then(b::<_, F>)); }
    // ulp siblings: neighbouring entries whose shape parameters are adjacent floats (state keyed on an approximately equal
    // parameter would collide), one family after the other so that the sibling pairing finds them
    for sh in [0.6 as F, ulp_up(0.6)] { ent!($v, "Frechet", $ft, "ulp sibling", [1.0 as F, 2.0 as F, sh], Frechet::<F>::new(1.0, 2.0, sh).ok().and_then(b::<_, F>)); }
    for sh in [0.6 as F, ulp_up(0.6)] { ent!($v, "Weibull", $ft, "ulp sibling", [2.0 as F, sh], Weibull::<F>::new(2.0, sh).ok().and_then(b::<_, F>)); }
    for sh in [0.6 as F, ulp_up(0.6)] { ent!($v, "Pareto", $ft, "ulp sibling", [2.0 as F, sh], Pareto::<F>::new(2.0, sh).ok().and_then(b::<_, F>)); }
    for sh in [2.6 as F, ulp_up(2.6)] { ent!($v, "Gamma", $ft, "ulp sibling", [sh, 1.5 as F], Gamma::<F>::new(sh, 1.5).ok().and_then(b::<_, F>)); }
    for sh in [2.6 as F, ulp_up(2.6)] { ent!($v, "Beta", $ft, "ulp sibling", [sh, 1.7 as F], Beta::<F>::new(sh, 1.7).ok().and_then(b::<_, F>)); }
    for sh in [2.6 as F, ulp_up(2.6)] { ent!($v, "SkewNormal", $ft, "ulp sibling", [0.5 as F, 2.0 as F, sh], SkewNormal::<F>::new(0.5, 2.0, sh).ok().and_then(b::<_, F>)); }
    // the other constructors (the value is what matters, not how it was built; a constructor with hidden state shows as a
    // value that depends on what was constructed before)
    for (m, cv) in [(2.0 as F, 0.5 as F), (1.0, 2.0)] {
        ent!($v, "Normal", $ft, "from_mean_cv", [m, cv], Normal::<F>::from_mean_cv(m, cv).ok().and_then(b::<_, F>));
        ent!($v, "LogNormal", $ft, "from_mean_cv", [m, cv], LogNormal::<F>::from_mean_cv(m, cv).ok().and_then(b::<_, F>)); }
    ent!($v, "Pert", $ft, "with_mean", [0.0 as F, 8.0 as F, 3.0 as F, 2.0 as F], Pert::<F>::new(0.0, 8.0).with_shape(2.0).with_mean(3.0).ok().and_then(b::<_, F>));
    for (a, be) in [(1.0 as F, 0.0 as F), (2.0, 1.5), (1e2, -99.0), (1e-2, 0.0), (5.0, -4.0)] {
        ent!($v, "NormalInverseGaussian", $ft, "-", [a, be], NormalInverseGaussian::<F>::new(a, be).ok().and_then(b::<_, F>)); }
    let lam_max: F = if $ft == "f32" { 1e7 } else { 1e15 };
    for (l, var) in [(0.5 as F, "Knuth"), (ulp_dn(12.0), "Knuth"), (12.0, "Rejection"), (ulp_up(12.0), "Rejection"), (100.0, "Rejection"), (100.25, "Rejection"),
                     // near-miss siblings: same integer part, different fraction (state keyed on a truncated parameter would collide)
                     (12.25, "Rejection"), (12.75, "Rejection"), (13.5, "Rejection"), (20.25, "Rejection"), (20.5, "Rejection"), (lam_max, "Rejection"), (1e-3, "Knuth"), (if $ft == "f32" { 1e-9 } else { 1e-17f64 as F }, "Knuth")] {
        ent!($v, "Poisson", $ft, var, [l], Poisson::<F>::new(l).ok().and_then(b::<_, F>)); }
    let zn_max: F = if $ft == "f32" { 1e6 } else { 1e15 };
    for (n, s) in [(1.0 as F, 0.0 as F), (10.0, 0.0), (10.0, 1.0), (10.0, ulp_up(1.0)), (10.0, ulp_dn(1.0)), (1000.0, 0.5), (zn_max, 2.0), (10.0, 10.0), (1.0, 0.25), (2.0, 0.0)] {
        ent!($v, "Zipf", $ft, "-", [n, s], Zipf::<F>::new(n, s).ok().and_then(bx::<_, F>)); }
    for s in [2.0 as F, 1.05, 100.0, 10.0, 1.5, 1.001, ulp_up(1.0)] {
        ent!($v, "Zeta", $ft, "-", [s], Zeta::<F>::new(s).ok().and_then(bx::<_, F>)); }
    // beyond envelope E: only the termination / budget rule of C05 is judged there ("there is no parameter
    // value that makes sampling loop forever"); support, laws and the object model skip these entries
    {
        let huge: F = if $ft == "f32" { 1e30 } else { 1e155f64 as F };
        let vhuge: F = if $ft == "f32" { 3e38 } else { 1e300f64 as F };
        let tiny: F = if $ft == "f32" { 1e-30 } else { 1e-200f64 as F };
        for (a, bb) in [(huge, huge), (vhuge, huge), (tiny, tiny), (tiny, huge), (huge, tiny), (vhuge, vhuge)] {
            ent!($v, "Beta", $ft, "beyond-E", [a, bb], Beta::<F>::new(a, bb).ok().and_then(b::<_, F>)); }
        for (k, t) in [(huge, 1.0 as F), (tiny, 1.0), (vhuge, tiny), (tiny, huge)] {
            ent!($v, "Gamma", $ft, "beyond-E", [k, t], Gamma::<F>::new(k, t).ok().and_then(b::<_, F>)); }
        for k in [huge, tiny, vhuge] {
            ent!($v, "ChiSquared", $ft, "beyond-E", [k], ChiSquared::<F>::new(k).ok().and_then(b::<_, F>));
            ent!($v, "StudentT", $ft, "beyond-E", [k], StudentT::<F>::new(k).ok().and_then(b::<_, F>)); }
        for (m, n) in [(huge, tiny), (tiny, huge), (vhuge, vhuge)] {
            ent!($v, "FisherF", $ft, "beyond-E", [m, n], FisherF::<F>::new(m, n).ok().and_then(b::<_, F>)); }
        for s in [ulp_up(ulp_up(1.0 as F)), huge] {
            ent!($v, "Zeta", $ft, "beyond-E", [s], Zeta::<F>::new(s).ok().and_then(bx::<_, F>)); }
        for (n, s) in [(vhuge, 2.0 as F), (vhuge, 1.0), (huge, 0.5), (2.0, huge), (F::INFINITY, 2.0), (F::INFINITY, 1.5), (F::INFINITY, 1.0625)] {
            ent!($v, "Zipf", $ft, "beyond-E", [n, s], Zipf::<F>::new(n, s).ok().and_then(bx::<_, F>)); }
        for l in [1.844e19 as F, tiny] {
            ent!($v, "Poisson", $ft, "beyond-E", [l], Poisson::<F>::new(l).ok().and_then(b::<_, F>)); }
        for (sc, sh) in [(1.0 as F, tiny), (1.0, huge)] {
            ent!($v, "Weibull", $ft, "beyond-E", [sc, sh], Weibull::<F>::new(sc, sh).ok().and_then(b::<_, F>));
            ent!($v, "Pareto", $ft, "beyond-E", [sc, sh], Pareto::<F>::new(sc, sh).ok().and_then(b::<_, F>)); }
        for (m, l) in [(huge, tiny), (tiny, huge)] {
            ent!($v, "InverseGaussian", $ft, "beyond-E", [m, l], InverseGaussian::<F>::new(m, l).ok().and_then(b::<_, F>)); }
    }
    let d64: Vec<F> = (0..64).map(|i| 0.01 * (1 + i) as F * (1 + i) as F).collect();
    for (al, var) in [(vec![0.05 as F, 0.025, 0.075, 0.0625], "FromBeta"), (vec![0.5, 2.0, 0.075, 7.0], "FromGamma"), (vec![1.0, 1.0], "FromGamma"),
                      (vec![0.1, 0.1, 0.1], "FromBeta"), (vec![0.01, 0.01], "FromBeta"), (vec![1e3, 1e-2, 5.0], "FromGamma"), (d64, "FromGamma")] {
        let al2 = al.clone();
        $v.push(Entry { family: "Dirichlet", ft: $ft, params: al.iter().map(|&x| x as f64).collect(), variant: var,
            make: Box::new(move || Dirichlet::<F>::new(&al2).ok().map(|d| Box::new($WD(d)) as Box<dyn Obj>)) });
    }
    for ws in [vec![0.5 as F, 0.25, 0.25], vec![1e-3, 5.0, 0.0, 2.5, 1.0], vec![0.1, 0.2, 0.3], vec![0.3, 0.3, 0.4], vec![1.0 / 3.0; 3], vec![0.1; 7],
               vec![0.7, 0.1, 0.1, 0.1], vec![1e-9, 1.0, 0.3], (1..=11).map(|i| 1.0 / i as F).collect()] {
        let w2 = ws.clone(); let w3 = ws.clone();
        $v.push(Entry { family: "WeightedAliasIndex", ft: $ft, params: ws.iter().map(|&x| x as f64).collect(), variant: "-",
            make: Box::new(move || WeightedAliasIndex::<F>::new(w2.clone()).ok().map(|d| Box::new(WN(d, std::marker::PhantomData::<usize>)) as Box<dyn Obj>)) });
        $v.push(Entry { family: "WeightedTreeIndex", ft: $ft, params: ws.iter().map(|&x| x as f64).collect(), variant: "-",
            make: Box::new(move || WeightedTreeIndex::<F>::new(w3.iter()).ok().and_then(bt::<F>)) });
    }
}} }

/// float trees with non-dyadic weights of length 7..15, built and then updated a few times (the
/// state after an update history is not the state a fresh build gives: rounding differs)
macro_rules! float_tree_entries { ($v:ident, $F:ty, $ft:expr, $n:expr) => {{
    for k in 0..$n {
        let mk = move || {
            let mut rnd = crate::rng::Sm(0x7ee5 + k as u64 * 977);
            let len = 7 + rnd.below(9) as usize;
            let ws: Vec<$F> = (0..len).map(|_| (0.1 + (rnd.below(1 << 20) as f64 / (1u64 << 20) as f64) * 9.9) as $F).collect();
            let mut ws = ws;
            let mut t = WeightedTreeIndex::<$F>::new(ws.iter()).ok()?;
            for _ in 0..(k % 4) {
                let i = rnd.below(len as u64) as usize;
                let w = (0.1 + (rnd.below(1 << 20) as f64 / (1u64 << 20) as f64) * 9.9) as $F;
                if t.update(i, w).is_ok() { ws[i] = w; }
            }
            Some((t, ws))
        };
        // params = the weight list the call history describes (tracked by the harness, not read back from the tree)
        // a panic inside the history (push/pop/update) is C09's business: the entry is then skipped here
        let params: Vec<f64> = match crate::util::guarded(mk).ok().flatten() { Some((_, ws)) => ws.iter().map(|&x| x as f64).collect(), None => vec![] };
        $v.push(Entry { family: "WeightedTreeIndex", ft: $ft, params, variant: "after-updates",
            make: Box::new(move || crate::util::guarded(mk).ok().flatten().and_then(|(t, _)| bt::<$F>(t))) });
    }
}} }

/// integer trees with zero weights, built and then updated / pushed / popped a few times; params = the weight list the
/// history describes (an index of weight 0 must never be returned, whatever the subtotals say)
fn int_tree_entries(v: &mut Vec<Entry>, n: usize) {
    for k in 0..n {
        let mk = move || {
            let mut rnd = crate::rng::Sm(0x1d7ee + k as u64 * 613);
            let len = 3 + rnd.below(12) as usize;
            let mut ws: Vec<u32> = (0..len).map(|_| { let x = rnd.below(8) as u32; if x < 3 { 0 } else { x - 2 } }).collect();
            if ws.iter().all(|&x| x == 0) { ws[0] = 1; }
            let mut t = WeightedTreeIndex::<u32>::new(ws.iter()).ok()?;
            for _ in 0..(1 + k % 6) {
                match rnd.below(6) {
                    0 => { let w = rnd.below(5) as u32; if t.push(w).is_ok() { ws.push(w); } }
                    1 => { if ws.len() > 2 { t.pop(); ws.pop(); } }
                    _ => { let i = rnd.below(ws.len() as u64) as usize; let w = if rnd.below(3) == 0 { 0 } else { rnd.below(6) as u32 };
                           if t.update(i, w).is_ok() { ws[i] = w; } }
                }
            }
            if ws.iter().all(|&x| x == 0) { let i = ws.len() - 1; if t.update(i, 2).is_ok() { ws[i] = 2; } }
            Some((t, ws))
        };
        let params: Vec<f64> = match crate::util::guarded(mk).ok().flatten() { Some((_, ws)) => ws.iter().map(|&x| x as f64).collect(), None => vec![] };
        v.push(Entry { family: "WeightedTreeIndex", ft: "int", params, variant: "after-updates",
            make: Box::new(move || crate::util::guarded(mk).ok().flatten().and_then(|(t, _)| bt::<u32>(t))) });
    }
}

pub fn registry() -> Vec<Entry> {
    let mut v: Vec<Entry> = vec![];
    let ntrees = if cfg!(feature = "with_serde") { 120 } else { 6 };
    float_tree_entries!(v, f32, "f32", ntrees);
    float_tree_entries!(v, f64, "f64", ntrees);
    float_entries!(v, f32, "f32", WD32);
    float_entries!(v, f64, "f64", WD64);
    int_tree_entries(&mut v, if cfg!(feature = "with_serde") { 40 } else { 24 });
    // boundary values of the one mutable type: the empty tree (a valid value: it compares, clones, prints and serialises; sampling
    // it is an error, which is an outcome like any other for C14/C15; C03/C05 skip it) and a tree drained by pop and refilled
    v.push(Entry { family: "WeightedTreeIndex", ft: "int", params: vec![], variant: "empty",
        make: Box::new(|| crate::util::guarded(|| WeightedTreeIndex::<u32>::new(Vec::<u32>::new().iter()).ok()).ok().flatten().and_then(bt::<u32>)) });
    v.push(Entry { family: "WeightedTreeIndex", ft: "f64", params: vec![], variant: "empty",
        make: Box::new(|| crate::util::guarded(|| WeightedTreeIndex::<f64>::new(Vec::<f64>::new().iter()).ok()).ok().flatten().and_then(bt::<f64>)) });
    v.push(Entry { family: "WeightedTreeIndex", ft: "int", params: vec![5.0], variant: "after-updates",
        make: Box::new(|| crate::util::guarded(|| { let mut t = WeightedTreeIndex::<u32>::new([3u32, 1].iter()).ok()?; t.pop(); t.pop(); t.push(5).ok()?; Some(t) }).ok().flatten().and_then(bt::<u32>)) });
    ent!(v, "StandardGeometric", "int", "-", [], bn::<_, u64>(StandardGeometric));
    for (n, p, var) in [(10u64, 0.0f64, "Constant"), (10, 1.0, "Constant"), (10, 0.3, "Binv"), (10, 0.7, "Binv flipped"), (19, 0.5, "Binv"), (100, 0.05, "Binv"),
                        (100, 0.3, "Btpe"), (100, 0.305, "Btpe"), (100, 0.7, "Btpe flipped"), (1000, 0.5005, "Btpe"), (21, 0.5, "Btpe"), (1000, 0.5, "Btpe"), (1u64 << 62, 0.5, "Btpe"),
                        (16_000_000, 3.14e-10, "Binv"), (u64::MAX, 1e-19, "Poisson"), (1u64 << 40, 1e-12, "Binv"), (1u64 << 62, 1e-30, "Poisson"), (40, 0.25, "Btpe"),
                        (u64::MAX, 0.5, "Btpe"), (u64::MAX, 0.999, "Btpe flipped"),
                        // BINV with huge n (n*p < 10, 1-p != 1): the inverse-transform walk must not depend on n
                        (1u64 << 40, 3.0 / (1u64 << 40) as f64, "Binv"), (1u64 << 40, 8.0 / (1u64 << 40) as f64, "Binv"), (1u64 << 50, 0.5 / (1u64 << 50) as f64, "Binv"),
                        (1u64 << 50, 6.0 / (1u64 << 50) as f64, "Binv"), (1u64 << 52, 3.5e-16, "Binv"), (1u64 << 45, 9.5 / (1u64 << 45) as f64, "Binv"), (1u64 << 63, 1e-18, "Poisson"), (1u64 << 32, 2.5e-9, "Btpe")] {
        ent!(v, "Binomial", "int", var, [n, p], Binomial::new(n, p).ok().and_then(b::<_, u64>)); }
    // BINV with huge n: a grid of n*p in (0, 10) and p down to the resolution of 1 - p
    for e in [35u32, 40, 45, 50, 55] { for np in [0.5f64, 1.0, 2.0, 5.0, 9.0] {
        let n = 1u64 << e; let p = np / n as f64;
        let var = if 1.0 - p == 1.0 { "Poisson" } else { "Binv huge n" };     // 1 - p == 1: the Poisson limit is used
        ent!(v, "Binomial", "int", var, [n, p], Binomial::new(n, p).ok().and_then(b::<_, u64>)); } }
    for k in 2..10u32 { let n = 1u64 << 52; let p = 1.5e-16 * k as f64;
        ent!(v, "Binomial", "int", "Binv p near resolution", [n, p], Binomial::new(n, p).ok().and_then(b::<_, u64>)); }
    for p in [1.0f64, 0.9, 2.0 / 3.0, 0.66, 0.5, 0.25, 0.01, 1e-3, 1e-5, 1e-7, 1e-9, 1e-10, 1e-11, 1e-12, 1e-13, 1e-14, 1e-15, 3e-16, 0.0, 1e-17] {
        ent!(v, "Geometric", "int", "-", [p], Geometric::new(p).ok().and_then(b::<_, u64>)); }
    for (nn, k, s, var) in [(10u64, 5u64, 5u64, "HIN"), (9, 3, 5, "HIN"), (9, 6, 4, "HIN"), (100, 30, 20, "HIN"), (100, 70, 80, "HIN"), (1000, 500, 500, "H2PE"), (1000, 501, 500, "H2PE"),
                            (10000, 5000, 300, "H2PE"), (10000, 7000, 9000, "H2PE"), (40, 20, 20, "H2PE"), (1u64 << 40, 1 << 39, 1000, "H2PE"), (50, 0, 10, "HIN"), (50, 50, 10, "HIN"),
                            // H2PE just above the HIN threshold (mode 10..12), plain and reflected
                            (1000, 100, 105, "H2PE"), (5000, 60, 900, "H2PE"), (50000, 49900, 5300, "H2PE"), (3000, 2700, 2880, "H2PE"), (200000, 150, 15000, "H2PE"),
                            // huge modes (the squeeze must do the work: an exact evaluation of f(y) walks |y - m| ~ sqrt(N) steps)
                            (1u64 << 40, 1 << 39, 1 << 39, "H2PE"), (1u64 << 56, 1 << 55, 1 << 54, "H2PE"), (1u64 << 62, 1 << 61, 1 << 61, "H2PE"),
                            // strongly unbalanced populations (K << N) with a large sample: the hat must still fit (mean words stay small)
                            (1u64 << 40, 1 << 20, 1 << 39, "H2PE"), (1u64 << 50, 1 << 30, 1 << 49, "H2PE"), (1u64 << 30, 1 << 12, 1 << 29, "H2PE"),
                            // optional: the constructor may refuse (PopulationTooLarge); if it builds a value, sampling it must not panic (F11)
                            (1u64 << 62, 1 << 40, 1 << 61, "H2PE optional")] {
        ent!(v, "Hypergeometric", "int", var, [nn, k, s], Hypergeometric::new(nn, k, s).ok().and_then(b::<_, u64>)); }
    // every integer weight type once (the weight type is part of the serialised form and of the sampler's arithmetic)
    macro_rules! int_weight_types { ($($t:ty),*) => { $(
        { let ws: Vec<$t> = vec![2, 1, 0, 5]; let (w2, w3) = (ws.clone(), ws.clone());
          v.push(Entry { family: "WeightedAliasIndex", ft: "int", params: ws.iter().map(|&x| x as f64).collect(), variant: stringify!($t),
              make: Box::new(move || crate::util::guarded(|| WeightedAliasIndex::<$t>::new(w2.clone()).ok()).ok().flatten().map(|d| Box::new(WN(d, std::marker::PhantomData::<usize>)) as Box<dyn Obj>)) });
          v.push(Entry { family: "WeightedTreeIndex", ft: "int", params: ws.iter().map(|&x| x as f64).collect(), variant: stringify!($t),
              make: Box::new(move || crate::util::guarded(|| WeightedTreeIndex::<$t>::new(w3.iter()).ok()).ok().flatten().and_then(bt::<$t>)) }); }
    )* } }
    int_weight_types!(u8, i8, u16, i16, i32, u64, i64, u128, i128, usize);
    for ws in [vec![2u32, 1, 1], vec![0, 3, 7, 0, 1], vec![1; 17]] {
        let w2 = ws.clone(); let w3 = ws.clone();
        v.push(Entry { family: "WeightedAliasIndex", ft: "int", params: ws.iter().map(|&x| x as f64).collect(), variant: "-",
            make: Box::new(move || WeightedAliasIndex::<u32>::new(w2.clone()).ok().map(|d| Box::new(WN(d, std::marker::PhantomData::<usize>)) as Box<dyn Obj>)) });
        v.push(Entry { family: "WeightedTreeIndex", ft: "int", params: ws.iter().map(|&x| x as f64).collect(), variant: "-",
            make: Box::new(move || WeightedTreeIndex::<u32>::new(w3.iter()).ok().and_then(bt::<u32>)) });
    }
    v
}
