//! C06: acceptance probabilities of the ziggurat's wedge and tail tests, measured on the real StandardNormal / Exp1 (f64).
//! The cases (anchors) arrive as CASE lines printed by TLC (MCZigAcc).  For a wedge anchor xa in layer i the driver searches
//! the first word (low 8 bits = i, high 52 bits by bisection: x = u X[i] is monotone in them) whose proposal is the smallest
//! x >= xa, then counts the second words that accept it (accepted <=> the call returns after two words; a suffix of the word
//! range).  Tails likewise.  Nothing is compared here: TraceZigAcc.tla does that with the exported tables and ZigAccTable.
use crate::fl::*;
use crate::rng::ScriptRng;
use crate::util::*;
use rand_distr::{Distribution, Exp1, StandardNormal};
use serde_json::{json, Value};
use std::io::{BufRead, Write};

fn l14(mut v: u128) -> Vec<i64> { let mut o = vec![]; loop { o.push((v & 0x3fff) as i64); v >>= 14; if v == 0 { break; } } o }

struct Z { r: ScriptRng, norm: bool }
impl Z {
    fn call(&mut self, ws: &[u64]) -> (f64, u64) {
        self.r.prefix.clear(); self.r.prefix.extend_from_slice(ws); self.r.pos = 0; self.r.state = 0x5eed ^ ws[0]; self.r.n32 = 0; self.r.n64 = 0; self.r.nbytes = 0;
        let v: f64 = if self.norm { StandardNormal.sample(&mut self.r) } else { Exp1.sample(&mut self.r) };
        (v, self.r.words())
    }
}

/// smallest w in [lo, hi] with pred(w) (pred monotone false..true); hi + 1 if none
fn first_true(lo: u128, hi: u128, mut pred: impl FnMut(u128) -> bool) -> u128 {
    let (mut a, mut b) = (lo, hi + 1);                      // lower bound over [lo, hi + 1): hi + 1 stands for "none"
    while a < b { let m = a + (b - a) / 2; if pred(m) { b = m; } else { a = m + 1; } }
    a
}

pub fn drive(args: &[String]) -> i32 {
    let outp = arg_val(args, "--out").unwrap();
    let mut passf = arg_val(args, "--passthrough").map(|p| std::fs::File::create(p).unwrap());
    let mut out: Vec<String> = vec![];
    let mut ncases = 0u64;
    const ALL: u128 = (1u128 << 64) - 1;
    for line in std::io::stdin().lock().lines() {
        let Ok(line) = line else { break };
        let Some(p) = tlc_payload(&line, "CASE") else { if let Some(f) = passf.as_mut() { let _ = writeln!(f, "{}", line); } continue; };
        let c: Value = serde_json::from_str(&p).unwrap();
        ncases += 1;
        let kind = c["kind"].as_str().unwrap().to_string();
        let id = c["id"].as_i64().unwrap();
        let r = guarded(|| -> Vec<Value> {
            let mut evs = vec![];
            match kind.as_str() {
                "wedge" => {
                    let norm = c["tab"].as_str().unwrap() == "norm";
                    let i = c["i"].as_u64().unwrap();
                    let xa: f64 = c["xa"].as_str().unwrap().parse().unwrap();
                    let mut z = Z { r: ScriptRng::new(vec![], 0), norm };
                    let w1 = |hb: u128| -> u64 { ((hb as u64) << 12) | i };
                    for neg in [false, true] {
                        if neg && !norm { continue; }
                        // the proposal x as a function of the high 52 bits (second word = all ones: the lowest ordinate, accepts every wedge point)
                        let (lo, hi) = if !norm { (0u128, (1u128 << 52) - 1) } else if neg { (0u128, (1u128 << 51) - 1) } else { (1u128 << 51, (1u128 << 52) - 1) };
                        // (a proposal at the very edge x ~ X[i] can be rejected even by the lowest ordinate: it counts as beyond every anchor)
                        let mut prop = |h: u128, z: &mut Z| -> f64 { let (v, nw) = z.call(&[w1(h), u64::MAX]); if nw <= 2 { v } else if neg { f64::NEG_INFINITY } else { f64::INFINITY } };
                        let hb = if !neg { first_true(lo, hi, |h| prop(h, &mut z) >= xa) }
                                 else { let f = first_true(lo, hi, |h| prop(h, &mut z) > -xa); f.saturating_sub(1) };     // largest h with x <= -xa
                        let (x, nw) = z.call(&[w1(hb), u64::MAX]);
                        // accepted second words: a suffix of the word range
                        let first_acc = first_true(0, ALL, |w| z.call(&[w1(hb), w as u64]).1 == 2);
                        let t = ALL + 1 - first_acc.min(ALL + 1);
                        evs.push(json!({"op": "wedge", "case": id, "tab": c["tab"], "i": i, "k": c["k"], "neg": neg, "inwedge": nw == 2, "x": ord_limbs(x.abs()), "xq": l14((x.abs() * 1099511627776.0).floor() as u128), "xa": c["xa"],
                                        "T": l14(t), "show": [format!("{:e}", x), format!("{:.12}", t as f64 / 18446744073709551616.0)]}));
                    }
                }
                "ntail" => {
                    let xa: f64 = c["xa"].as_str().unwrap().parse().unwrap();
                    let mut z = Z { r: ScriptRng::new(vec![], 0), norm: true };
                    let w1: u64 = ((1u64 << 52) - 1) << 12;                 // layer 0, u just below 1: beyond R, the tail routine
                    let r_lim = z.call(&[w1, u64::MAX, 0]).0;             // U1 ~ 1: x ~ 0, the result is R itself (within an ulp)
                    // tail excess as a function of the second word (U1): decreasing; the third word 0 (U2 minimal) is always accepted
                    let w2 = first_true(0, ALL, |w| z.call(&[w1, w as u64, 0]).0 - r_lim <= xa);
                    let (o, nw) = z.call(&[w1, w2 as u64, 0]);
                    let last_acc = first_true(0, ALL, |w| z.call(&[w1, w2 as u64, w as u64]).1 != 3);      // accepted third words: a prefix
                    evs.push(json!({"op": "ntail", "case": id, "xa": c["xa"], "three_words": nw == 3, "excess": ord_limbs(o - r_lim), "T": l14(last_acc),
                                    "show": [format!("{:e}", o - r_lim), format!("{:.12}", last_acc as f64 / 18446744073709551616.0)]}));
                }
                "etail" => {
                    let t: f64 = c["t"].as_str().unwrap().parse().unwrap();
                    let mut z = Z { r: ScriptRng::new(vec![], 0), norm: false };
                    let w1: u64 = ((1u64 << 52) - 1) << 12;                 // layer 0, u just below 1: x = u X[0] >= R, the tail routine
                    let r_lim = z.call(&[w1, u64::MAX]).0;                // U ~ 1: R itself
                    let first_in = first_true(0, ALL, |w| z.call(&[w1, w as u64]).0 - r_lim <= t);        // out = R - ln U decreases in U
                    let nw = z.call(&[w1, first_in.min(ALL) as u64]).1;
                    evs.push(json!({"op": "etail", "case": id, "t": c["t"], "two_words": nw == 2, "cnt": l14(ALL + 1 - first_in.min(ALL + 1)),
                                    "show": [format!("{:.12}", (ALL + 1 - first_in.min(ALL + 1)) as f64 / 18446744073709551616.0)]}));
                }
                _ => {}
            }
            evs
        });
        match r {
            Ok(evs) => for mut e in evs { e["res"] = json!("Ok"); out.push(e.to_string()); },
            Err(p) => out.push(json!({"op": kind, "case": id, "res": format!("Panic: {}", p)}).to_string()),
        }
    }
    let mut f = std::io::BufWriter::new(std::fs::File::create(&outp).unwrap());
    for l in &out { writeln!(f, "{}", l).unwrap(); }
    f.flush().unwrap();
    println!("{}", json!({"tool": "zigacc-drive", "cases": ncases, "events": out.len()}));
    0
}
