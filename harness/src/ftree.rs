//! C10, float weights: the exact induced law of WeightedTreeIndex<f32/f64>::sample.  sample() consumes one word; the words
//! that return a given index form ONE interval of the word range (the descent maps a target t in [0, total) to an index and
//! t is monotone in the word), so the law is the list of interval lengths.  All change points of w -> index are located by
//! recursive bisection; TraceFloatLaw.tla compares length_k / 2^64 with weight_k / total in exact integer arithmetic.
use crate::rng::{ScriptRng, Sm};
use crate::util::*;
use rand_distr::weighted::{AliasableWeight, WeightedAliasIndex, WeightedTreeIndex};
use rand_distr::Distribution;
use serde_json::json;
use std::io::Write;

fn l14(mut v: u128) -> Vec<i64> { let mut o = vec![]; loop { o.push((v & 0x3fff) as i64); v >>= 14; if v == 0 { break; } } o }

trait Wf: Copy + PartialOrd + rand::distr::uniform::SampleUniform + rand_distr::weighted::Weight + core::ops::SubAssign + AliasableWeight + 'static { const NAME: &'static str; fn of(x: f64) -> Self; fn f64v(self) -> f64; }
impl Wf for f32 { const NAME: &'static str = "f32"; fn of(x: f64) -> f32 { x as f32 } fn f64v(self) -> f64 { self as f64 } }
impl Wf for f64 { const NAME: &'static str = "f64"; fn of(x: f64) -> f64 { x } fn f64v(self) -> f64 { self } }

fn law<W: Wf>(t: &WeightedTreeIndex<W>, n: usize) -> Result<(Vec<u128>, bool), String> where WeightedTreeIndex<W>: Distribution<usize> {
    let mut r = ScriptRng::new(vec![0], 0);
    let mut s = |w: u64| -> Result<usize, String> { r.prefix[0] = w; r.pos = 0; r.state = 3; r.n32 = 0; r.n64 = 0; r.nbytes = 0; guarded(|| t.sample(&mut r)) };
    // change points by recursive bisection (explicit stack): segments [a, b] with s(a) != s(b) are split
    let mut len = vec![0u128; n];
    let mut intervals_ok = true;
    let mut seen_closed = vec![false; n];
    let mut stack: Vec<(u64, usize, u64, usize)> = vec![];
    let (lo, hi) = (0u64, u64::MAX);
    let (slo, shi) = (s(lo)?, s(hi)?);
    stack.push((lo, slo, hi, shi));
    // collect boundaries: list of (first word of a run, value)
    let mut runs: Vec<(u64, usize)> = vec![(lo, slo)];
    while let Some((a, sa, b, sb)) = stack.pop() {
        if sa == sb { continue; }
        if b - a == 1 { runs.push((b, sb)); continue; }
        let m = a + (b - a) / 2;
        let sm = s(m)?;
        // process the left part last-in so that runs come out in increasing order
        stack.push((m, sm, b, sb));
        stack.push((a, sa, m, sm));
    }
    runs.sort();
    for i in 0..runs.len() {
        let (start, v) = runs[i];
        let end: u128 = if i + 1 < runs.len() { runs[i + 1].0 as u128 } else { 1u128 << 64 };
        if v >= n { intervals_ok = false; continue; }
        if seen_closed[v] { intervals_ok = false; }             // a second run of the same index: its preimage is not an interval
        len[v] += end - start as u128;
        if i + 1 < runs.len() { seen_closed[v] = true; }
    }
    Ok((len, intervals_ok))
}

fn cases<W: Wf>(seed: u64, count: usize, out: &mut Vec<String>) where WeightedTreeIndex<W>: Distribution<usize> {
    const SCALE: f64 = 4611686018427387904.0;      // 2^62: every weight used here is an integer multiple of 2^-62 in f32 and in f64
    let mut rnd = Sm(seed);
    for c in 0..count {
        let n = 2 + rnd.below(14) as usize;
        // weights with at most 12 significant bits (exact in f32 and f64, so that the ideal law is a small rational), some zeros
        // even cases: few-bit weights (no rounding anywhere: the law must be exact); odd cases: full-mantissa weights in [2^-8, 16)
        // (subtotals round; the ideal law is still an exact rational: w = integer * 2^-SCALE in the float type)
        let full = c % 2 == 1;
        let genw = move |rnd: &mut Sm| -> f64 { if rnd.below(7) == 0 { 0.0 } else if !full { (1 + rnd.below(4095)) as f64 / 256.0 }
            else { W::of((1.0 + rnd.below(1 << 52) as f64 / (1u64 << 52) as f64) * [0.00390625, 0.25, 1.0, 8.0][rnd.below(4) as usize]).f64v() } };
        let mut ws: Vec<f64> = (0..n).map(|_| genw(&mut rnd)).collect();
        if ws.iter().all(|&x| x == 0.0) { ws[0] = 1.0; }
        let built = guarded(|| {
            let mut t = WeightedTreeIndex::<W>::new(ws.iter().map(|&x| W::of(x))).ok()?;
            let mut ws = ws.clone(); let mut hist = vec![];
            for _ in 0..(c % 6) {
                match rnd.below(5) {
                    0 => { let w = genw(&mut rnd); if t.push(W::of(w)).is_ok() { ws.push(w); hist.push("push"); } }
                    1 => { if ws.len() > 2 { t.pop(); ws.pop(); hist.push("pop"); } }
                    _ => { let i = rnd.below(ws.len() as u64) as usize; let w = genw(&mut rnd); if t.update(i, W::of(w)).is_ok() { ws[i] = w; hist.push("update"); } }
                }
            }
            if ws.iter().all(|&x| x == 0.0) { let i = ws.len() - 1; if t.update(i, W::of(2.0)).is_ok() { ws[i] = 2.0; } }
            Some((t, ws, hist))
        });
        let Ok(Some((t, ws, hist))) = built else { out.push(json!({"op": "flaw", "ft": W::NAME, "res": "Panic in the history", "n": 0, "wq": [], "len": [], "intervals": false}).to_string()); continue };
        let n = ws.len();
        match law::<W>(&t, n) {
            Ok((len, ok)) => out.push(json!({"op": "flaw", "ft": W::NAME, "res": "Ok", "n": n, "wq": ws.iter().map(|&w| l14((w * SCALE) as u128)).collect::<Vec<_>>(), "full": full,
                "len": len.iter().map(|&x| l14(x)).collect::<Vec<_>>(), "intervals": ok, "hist": hist, "show": [format!("{:?}", ws)]}).to_string()),
            Err(p) => out.push(json!({"op": "flaw", "ft": W::NAME, "res": format!("Panic: {}", p), "n": n, "wq": [], "len": [], "intervals": false, "show": [format!("{:?}", ws)]}).to_string()),
        }
    }
}

/// C08, float weights: the exact induced law of WeightedAliasIndex<f32/f64>::sample over its two words.  The first word selects
/// a column (rand's integer range: the column of a word is measured on an equal-weights table of the same length, whose output
/// is the column itself), the second is compared with the column's threshold: the second words returning the value at w2 = 0
/// are a prefix.  Reported per column: its measure c (of 2^64), the two values and the prefix length T; TLC sums the masses.
fn alias_cases<W: Wf>(seed: u64, count: usize, out: &mut Vec<String>) where WeightedAliasIndex<W>: Distribution<usize> {
    const SCALE: f64 = 4611686018427387904.0;
    let mut rnd = Sm(seed ^ 0xa11a5);
    for c in 0..count {
        let n = 2 + rnd.below(11) as usize;
        let full = c % 2 == 1;
        let genw = move |rnd: &mut Sm| -> f64 { if rnd.below(7) == 0 { 0.0 } else if !full { (1 + rnd.below(4095)) as f64 / 256.0 }
            else { W::of((1.0 + rnd.below(1 << 52) as f64 / (1u64 << 52) as f64) * [0.00390625, 0.25, 1.0, 8.0][rnd.below(4) as usize]).f64v() } };
        let mut ws: Vec<f64> = (0..n).map(|_| genw(&mut rnd)).collect();
        if ws.iter().all(|&x| x == 0.0) { ws[0] = 1.0; }
        let res = guarded(|| -> Option<Vec<serde_json::Value>> {
            let d = WeightedAliasIndex::<W>::new(ws.iter().map(|&x| W::of(x)).collect()).ok()?;
            let eq = WeightedAliasIndex::<W>::new(vec![W::of(1.0); n]).ok()?;
            let mut r = ScriptRng::new(vec![0, 0], 0);
            let mut call = |t: &WeightedAliasIndex<W>, w1: u64, w2: u64| -> (usize, u64) { r.prefix[0] = w1; r.prefix[1] = w2; r.pos = 0; r.state = 9; r.n32 = 0; r.n64 = 0; r.nbytes = 0; let v = t.sample(&mut r); (v, r.words()) };
            // column boundaries on the 32 high bits of the first word (equal-weights table: output = column)
            let mut cols = vec![];
            let mut start: u64 = 0;
            for i in 0..n {
                // first pattern v >= start whose column is > i
                let (mut a, mut b) = (start, 1u64 << 32);
                // a first word in rand's rejection zone (the first pattern of some columns) makes the index draw consume another word:
                // such a probe says nothing about its column, the next pattern is asked instead
                let mut col_of = |m: u64| -> usize { for k in 0..8u64 { let (o, nw) = call(&eq, (m + k).min((1u64 << 32) - 1) << 32, 0); if nw == 2 { return o; } } usize::MAX };
                while a < b { let m = a + (b - a) / 2; if col_of(m) > i { b = m; } else { a = m + 1; } }
                let end = a;
                if end > start {
                    let w1 = (start + (end - start) / 2) << 32;                  // a word in the middle of the column (away from rand's rejection zone at the low end)
                    let (o0, n0) = call(&d, w1, 0); let (o1, n1) = call(&d, w1, u64::MAX);
                    let t: u128 = if o0 == o1 { 1u128 << 64 } else {
                        let (mut a2, mut b2) = (0u128, (1u128 << 64) - 1);   // largest w2 with output o0
                        while a2 < b2 { let m = a2 + (b2 - a2 + 1) / 2; if call(&d, w1, m as u64).0 == o0 { a2 = m; } else { b2 = m - 1; } }
                        a2 + 1 };
                    cols.push(json!({"c": l14(((end - start) as u128) << 32), "o0": o0, "o1": o1, "T": l14(t), "two_words": n0 == 2 && n1 == 2}));
                }
                start = end;
            }
            Some(cols)
        });
        match res {
            Ok(Some(cols)) => out.push(json!({"op": "alaw", "ft": W::NAME, "res": "Ok", "n": n, "wq": ws.iter().map(|&w| l14((w * SCALE) as u128)).collect::<Vec<_>>(), "cols": cols, "full": full,
                                              "show": [format!("{:?}", ws)]}).to_string()),
            Ok(None) => out.push(json!({"op": "alaw", "ft": W::NAME, "res": "ConstructorFailed", "n": n, "wq": [], "cols": [], "show": [format!("{:?}", ws)]}).to_string()),
            Err(p) => out.push(json!({"op": "alaw", "ft": W::NAME, "res": format!("Panic: {}", p), "n": n, "wq": [], "cols": [], "show": [format!("{:?}", ws)]}).to_string()),
        }
    }
}

pub fn drive(args: &[String]) -> i32 {
    let seed = arg_u64(args, "--seed", 1);
    let count = arg_u64(args, "--count", 300) as usize;
    let outp = arg_val(args, "--out").unwrap();
    let mut out = vec![];
    if args.iter().any(|a| a == "--alias") { alias_cases::<f32>(seed, count, &mut out); alias_cases::<f64>(seed + 1, count, &mut out); }
    else { cases::<f32>(seed, count, &mut out); cases::<f64>(seed + 1, count, &mut out); }
    let mut f = std::io::BufWriter::new(std::fs::File::create(&outp).unwrap());
    for l in &out { writeln!(f, "{}", l).unwrap(); }
    println!("{}", json!({"tool": "ftree-drive", "events": out.len()}));
    0
}
