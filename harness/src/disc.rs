//! C02 (exact regimes): ticket histograms of BINV / HIN, breakpoint tickets for larger parameters,
//! Geometric (trivial and Bringmann-Friedrich) and StandardGeometric on scripted draw classes.
//! Events are judged by TraceDiscrete.tla, which computes the documented pmf numerators itself.
use crate::rng::{ScriptRng, Sm};
use crate::util::*;
use rand_distr::{Binomial, Distribution, Geometric, Hypergeometric, StandardGeometric, Zipf};
use serde_json::json;
use std::io::Write;

fn choose(n: u64, k: u64) -> u128 { if k > n { return 0; } let mut r: u128 = 1; for i in 0..k { r = r * (n - i) as u128 / (i + 1) as u128; } r }

/// word for which rng.random::<f64>() is the midpoint of ticket t of d (d = 2^e: exact; else nearest lattice point)
fn ticket_word(t: u128, d: u128) -> u64 {
    let num = (2 * t + 1) << 52;       // (2t+1) * 2^53 / (2d), rounded
    let v = (num + d / 2) / d;
    (v as u64) << 11
}

fn hist<D: Distribution<u64>>(dist: &D, d: u128, n: u64) -> (Vec<u64>, u64, u64, u64) {
    let mut counts = vec![0u64; n as usize + 1];
    let (mut other, mut words_bad, mut panics) = (0u64, 0u64, 0u64);
    for t in 0..d {
        let mut rng = ScriptRng::new(vec![ticket_word(t, d)], 99);
        match guarded(|| dist.sample(&mut rng)) {
            Ok(x) => { if rng.words() != 1 { words_bad += 1; } if x <= n { counts[x as usize] += 1; } else { other += 1; } }
            Err(_) => panics += 1,
        }
    }
    (counts, other, words_bad, panics)
}

pub fn drive(args: &[String]) -> i32 {
    let seed = arg_u64(args, "--seed", 1);
    let thorough = args.iter().any(|a| a == "--thorough");
    let outp = arg_val(args, "--out").unwrap();
    let mut out: Vec<String> = vec![];
    let mut rnd = Sm(seed);
    let mut tickets_total = 0u128;
    // ---- BINV histograms: p = A / 2^j, D = 2^(j n) <= 2^20
    let mut bp: Vec<(u64, u64, u64)> = vec![];
    for n in 1..=8u64 { for a in 0..=4u64 { bp.push((n, a, 2)); } }
    for n in 1..=10u64 { for a in 0..=2u64 { bp.push((n, a, 1)); } }
    bp.push((19, 1, 1));
    for a in [1u64, 3, 5, 7] { bp.push((6, a, 3)); bp.push((4, a, 3)); }
    if thorough { for a in [1u64, 5, 11, 15] { bp.push((5, a, 4)); } bp.push((20, 1, 1)); }
    for (n, a, j) in bp {
        let d: u128 = 1u128 << (j * n);
        if d > (1 << 20) { continue; }
        let p = a as f64 / (1u64 << j) as f64;
        let Ok(dist) = Binomial::new(n, p) else { continue };
        let (counts, other, wb, panics) = hist(&dist, d, n);
        tickets_total += d;
        out.push(json!({"op": "hist", "kind": "binv", "par": [n, a, j], "counts": counts, "other": other, "panics": panics,
                        "guard_ok": wb == 0 || a == 0 || a == (1 << j), "mixed": wb > 0 && (wb as u128) * 2 <= d && a != 0 && a != (1 << j), "words_bad": wb, "tickets": d as u64}).to_string());
    }
    // ---- HIN histograms: every (N, K, n), N <= nmax
    let nmax = if thorough { 16 } else { 13 };
    for nn in 1..=nmax as u64 { for k in 0..=nn { for s in 0..=nn {
        let d = choose(nn, s);
        let Ok(dist) = Hypergeometric::new(nn, k, s) else { continue };
        let (counts, other, wb, panics) = hist(&dist, d, s);
        tickets_total += d;
        out.push(json!({"op": "hist", "kind": "hin", "par": [nn, k, s], "counts": counts, "other": other, "panics": panics, "guard_ok": wb == 0, "mixed": wb > 0 && (wb as u128) * 2 <= d, "words_bad": wb, "tickets": d as u64}).to_string());
    } } }
    // ---- Zipf with s = 0 is documented to be uniform on 1..n: x = floor(u*n + 1), always accepted (2 words per call)
    for n in 1..=24u64 {
        let d = n * 64;
        for ft in ["f64", "f32"] {
            let mut counts = vec![0u64; n as usize]; let (mut other, mut wb, mut panics) = (0u64, 0u64, 0u64);
            for t in 0..d {
                let mut rng = ScriptRng::new(vec![ticket_word(t as u128, d as u128), rnd.next()], 4);
                let r = if ft == "f64" { guarded(|| Zipf::new(n as f64, 0.0).unwrap().sample(&mut rng)) } else { guarded(|| Zipf::new(n as f32, 0.0f32).unwrap().sample(&mut rng) as f64) };
                match r { Ok(x) => { if rng.words() != 2 { wb += 1; } if x >= 1.0 && x <= n as f64 && x.fract() == 0.0 { counts[x as usize - 1] += 1; } else { other += 1; } } Err(_) => panics += 1 }
            }
            out.push(json!({"op": "zipf0", "ft": ft, "n": n, "d": d, "counts": counts, "other": other, "panics": panics, "guard_ok": wb == 0}).to_string());
        }
    }
    // ---- breakpoint / random tickets for larger parameters (D < 2^30)
    let nt = if thorough { 6000 } else { 1500 };
    for _ in 0..nt {
        if rnd.below(2) == 0 {
            // hypergeometric, 14 <= N <= 30 (HIN regime throughout)
            let nn = 14 + rnd.below(17); let k = rnd.below(nn + 1); let s = rnd.below(nn + 1);
            let d = choose(nn, s); if d >= (1 << 30) { continue; }
            let Ok(dist) = Hypergeometric::new(nn, k, s) else { continue };
            // a ticket next to a cdf breakpoint of the documented pmf, or a random one
            let t = if rnd.below(3) == 0 { rnd.below(d as u64) as u128 } else {
                let y = rnd.below(s + 1);
                let mut c: u128 = 0; for v in 0..=y { c += choose(k, v) * choose(nn - k, s.saturating_sub(v)) * if v <= s { 1 } else { 0 }; }
                let c = c.min(d);
                let side = rnd.below(2) as u128;
                if rnd.below(2) == 0 { (c + side).saturating_sub(1).min(d - 1) } else { (d - c.min(d) + side).saturating_sub(1).min(d - 1) }
            };
            let mut rng = ScriptRng::new(vec![ticket_word(t, d)], 5);
            let r = guarded(|| dist.sample(&mut rng));
            out.push(json!({"op": "ticket", "kind": "hin", "par": [nn, k, s], "t": t as u64, "out": r.clone().map(|x| x.min(1 << 30) as i64).unwrap_or(-1),
                            "guard_ok": r.is_ok() && rng.words() == 1, "panic": r.is_err()}).to_string());
        } else {
            // binomial n <= 30 at p in {1/2, 1/4, 3/4} while D < 2^30 and n*min(p,1-p) < 10
            let (j, a) = [(1u64, 1u64), (2, 1), (2, 3)][rnd.below(3) as usize];
            let n = 11 + rnd.below(if j == 1 { 9 } else { 4 });
            let d: u128 = 1u128 << (j * n); if d >= (1 << 30) { continue; }
            let p = a as f64 / (1u64 << j) as f64;
            if (n as f64) * p.min(1.0 - p) >= 10.0 { continue; }
            let Ok(dist) = Binomial::new(n, p) else { continue };
            let t = if rnd.below(3) == 0 { rnd.below(d as u64) as u128 } else {
                let y = rnd.below(n + 1);
                let mut c: u128 = 0; for v in 0..=y { c += choose(n, v) * (a as u128).pow(v as u32) * (((1u128 << j) - a as u128).pow((n - v) as u32)); }
                let side = rnd.below(2) as u128;
                if rnd.below(2) == 0 { (c.min(d) + side).saturating_sub(1).min(d - 1) } else { (d - c.min(d) + side).saturating_sub(1).min(d - 1) }
            };
            let mut rng = ScriptRng::new(vec![ticket_word(t, d)], 5);
            let r = guarded(|| dist.sample(&mut rng));
            out.push(json!({"op": "ticket", "kind": "binv", "par": [n, a, j], "t": t as u64, "out": r.clone().map(|x| x.min(1 << 30) as i64).unwrap_or(-1),
                            "guard_ok": r.is_ok() && rng.words() == 1, "panic": r.is_err()}).to_string());
        }
    }
    // ---- Geometric, trivial algorithm
    let uw = |u: f64| -> u64 { ((u * 9007199254740992.0) as u64) << 11 };
    let eps = 1.0 / 9007199254740992.0;
    let ng = if thorough { 4000 } else { 800 };
    for _ in 0..ng {
        let (pa, pj) = [(3u64, 2u64), (7, 3), (1, 0), (11, 4)][rnd.below(4) as usize];
        let p = pa as f64 / (1u64 << pj) as f64;
        let Ok(dist) = Geometric::new(p) else { continue };
        let nf = rnd.below(6) as usize;
        let mut cells: Vec<&str> = vec![]; let mut words = vec![];
        if p < 1.0 { for _ in 0..nf { cells.push("f"); words.push(uw([p + eps, 1.0 - eps, (1.0 + p) / 2.0][rnd.below(3) as usize])); } }
        cells.push("s"); words.push(uw([0.0, p.min(1.0 - eps), p / 2.0][rnd.below(3) as usize]));
        let mut rng = ScriptRng::new(words, 1);
        let r = guarded(|| dist.sample(&mut rng));
        out.push(json!({"op": "geo", "p": [pa, pj], "cells": cells, "out": r.map(|x| x.min(1 << 30) as i64).unwrap_or(-1), "words": rng.words()}).to_string());
    }
    // ---- Geometric, Bringmann-Friedrich
    for _ in 0..ng {
        let (a, j) = [(1u64, 1u64), (1, 2), (1, 3), (3, 3), (5, 3)][rnd.below(5) as usize];
        let p = a as f64 / (1u64 << j) as f64;
        let Ok(dist) = Geometric::new(p) else { continue };
        // k, pi as the documented algorithm defines them (exact dyadics)
        let mut k = 1u32; let mut pi = (1.0 - p) * (1.0 - p); while pi > 0.5 { k += 1; pi = pi * pi; }
        let nd = rnd.below(4) as usize;
        let mut dcells: Vec<&str> = vec![]; let mut words = vec![];
        // thresholds are judged with a relative margin of 2^-40 (the pointwise rules of TraceBtpe measure them to that precision);
        // the last ulp of (1-p)^m is not part of the documented law
        let below = |t: f64| t * (1.0 - 9.094947017729282e-13);
        let above = |t: f64| (t * (1.0 + 9.094947017729282e-13)).min(1.0 - eps);
        for _ in 0..nd { dcells.push("b"); words.push(uw([0.0, below(pi), pi / 2.0][rnd.below(3) as usize])); }
        dcells.push("a"); words.push(uw([above(pi), above(pi) + eps, 0.99][rnd.below(3) as usize]));
        let ntry = 1 + rnd.below(3) as usize;
        let mut mtry: Vec<(u64, &str)> = vec![];
        for i in 0..ntry {
            let m = rnd.below(1 << k);
            let thr = (1.0 - p).powi(m as i32);
            let last = i == ntry - 1;
            if !last && m == 0 { // (1-p)^0 = 1: cannot be rejected
                continue;
            }
            words.push((rnd.next() & !((1u64 << k) - 1)) | m);
            if last { mtry.push((m, "acc")); words.push(uw([0.0, below(thr), thr / 2.0][rnd.below(3) as usize])); }
            else { mtry.push((m, "rej")); words.push(uw([above(thr), (above(thr) + eps).min(1.0 - eps), (thr + 1.0) / 2.0][rnd.below(3) as usize])); }
        }
        let mut rng = ScriptRng::new(words, 1);
        let r = guarded(|| dist.sample(&mut rng));
        out.push(json!({"op": "bf", "a": a, "j": j, "dcells": dcells, "mtry": mtry.iter().map(|(m, c)| json!([m, c])).collect::<Vec<_>>(),
                        "out": r.map(|x| x.min(1 << 30) as i64).unwrap_or(-1), "words": rng.words()}).to_string());
    }
    // ---- Bringmann-Friedrich with tiny p (k >= 32): a transcendental-free corner of the acceptance rule:
    // for m >= 1, (1-p)^m <= 1-p < 1 - 2^-53 whenever p > 2^-53, so the largest uniform draw must be
    // rejected whatever m is (also for m beyond i32::MAX, where the code switches from powi to powf)
    for _ in 0..ng / 2 {
        let p = [1.0 / 8589934592.0, 1.0 / 17179869184.0, 2.5e-10, 1e-10, 1e-12, 3e-5][rnd.below(6) as usize];
        let Ok(dist) = Geometric::new(p) else { continue };
        let mut k = 1u32; let mut pi = (1.0 - p) * (1.0 - p); while pi > 0.5 { k += 1; pi = pi * pi; }
        let mut words = vec![uw(0.75)];                    // pi <= 1/2 < 0.75: above
        let mut mtry: Vec<(u64, &str)> = vec![];
        for _ in 0..(1 + rnd.below(3)) {
            let top = 1u64 << k;
            let m = match rnd.below(5) { 0 => 1, 1 => top - 1, 2 => (top / 2 + rnd.below(top / 2)).max(1), 3 => ((1u64 << 31) + rnd.below(1 << 31)).min(top - 1).max(1), _ => rnd.below(top).max(1) };
            words.push((rnd.next() & !(top - 1)) | m);
            words.push(uw(1.0 - eps));
            mtry.push((m.min(1 << 30), "rej"));
        }
        words.push(rnd.next() & !((1u64 << k) - 1)); words.push(uw(0.0)); mtry.push((0, "acc"));
        let mut rng = ScriptRng::new(words, 1);
        let r = guarded(|| dist.sample(&mut rng));
        out.push(json!({"op": "bft", "k": k, "dcells": ["a"], "mtry": mtry.iter().map(|(m, c)| json!([m, c])).collect::<Vec<_>>(),
                        "out": r.map(|x| x.min(1 << 30) as i64).unwrap_or(-1), "words": rng.words()}).to_string());
    }
    // ---- StandardGeometric
    for _ in 0..ng {
        let nz = rnd.below(3) as usize;
        let mut words = vec![0u64; nz];
        let lzl = rnd.below(64) as u32;
        words.push((1u64 << 63 >> lzl) | (rnd.next() >> (lzl + 1).min(63) >> if lzl == 63 { 1 } else { 0 }));
        let lz: Vec<u32> = words.iter().map(|w| w.leading_zeros()).collect();
        let mut rng = ScriptRng::new(words, 1);
        let r = guarded(|| StandardGeometric.sample(&mut rng));
        out.push(json!({"op": "sgeo", "lz": lz, "out": r.map(|x| x as i64).unwrap_or(-1), "words": rng.words()}).to_string());
    }
    let mut f = std::io::BufWriter::new(std::fs::File::create(&outp).unwrap());
    for l in &out { writeln!(f, "{}", l).unwrap(); }
    println!("{}", json!({"tool": "disc-drive", "events": out.len(), "tickets_run_in_histograms": tickets_total as u64}));
    0
}
