//! C14 / C15: executes the schedules generated from ObjectModel.tla on real distribution values
//! and records the events for TraceObject.tla.  Ids are injective internings (representation
//! changes): RNG state -> id, output bits -> id, Debug string -> id, registry entry -> class id.
use crate::reg::*;
use crate::rng::ScriptRng;
use crate::util::*;
use serde_json::{json, Value};
use std::collections::HashMap;
use std::io::{BufRead, Write};

struct Intern<K: std::hash::Hash + Eq> { map: HashMap<K, i64> }
impl<K: std::hash::Hash + Eq> Intern<K> {
    fn new() -> Self { Intern { map: HashMap::new() } }
    fn id(&mut self, k: K) -> i64 { let n = self.map.len() as i64 + 1; *self.map.entry(k).or_insert(n) }
}

fn rng_key(r: &ScriptRng) -> (Vec<u64>, u64) { (r.prefix[r.pos.min(r.prefix.len())..].to_vec(), r.state) }

pub fn seed_rng(seed: u64, s: i64) -> ScriptRng {
    // seed 1: a random stream; seed 2: a single-word-adversarial stream (all-ones word at position 1)
    if s == 1 { ScriptRng::seeded(seed ^ 0x1111) } else { ScriptRng::adversarial(seed ^ 0x2222, 1, u64::MAX) }
}

/// sample() of a freshly constructed value of registry entry `ei` on a copy of `rng`, evaluated in a
/// new OS thread (no thread-local history): the history-free value of F(class, state)
fn fresh_eval(ei: usize, mutated: bool, rng: &ScriptRng) -> Option<(Result<Out, String>, ScriptRng)> {
    fresh_chain(ei, mutated, rng, 1).and_then(|mut v| v.pop()).map(|(_, o, r)| (o, r))
}

/// `k` successive sample() calls of a freshly constructed value on a copy of `rng`, in a new OS thread:
/// (state before, result, state after) per call; stops at the first panic
fn fresh_chain(ei: usize, mutated: bool, rng: &ScriptRng, k: usize) -> Option<Vec<(ScriptRng, Result<Out, String>, ScriptRng)>> {
    let r0 = rng.clone();
    std::thread::spawn(move || {
        crate::util::install_quiet_panic_hook();
        let reg = registry();
        let mut obj = (reg[ei].make)()?;
        if mutated { obj.mutate(); }
        let mut r = r0;
        let mut v = vec![];
        for _ in 0..k {
            let pre = r.clone();
            let o = guarded(|| obj.sample(&mut r));
            let stop = o.is_err();
            v.push((pre, o, r.clone()));
            if stop { break; }
        }
        Some(v)
    }).join().ok().flatten()
}

/// history-free-by-construction references: sample() of each registry entry on the run's first RNG state, evaluated
/// once per seed in registry order before any instance runs (a history different from every instance's history:
/// hidden process-global state shows up as a disagreement with the values observed inside the instances)
pub type Pristine = HashMap<(u64, usize), (Result<Out, String>, ScriptRng)>;
pub fn pristine_pass(reg: &[Entry], seeds: &[u64]) -> Pristine {
    let mut m = HashMap::new();
    for &sd in seeds {
        for (i, e) in reg.iter().enumerate() {
            if e.variant == "beyond-E" { continue; }
            let Some(obj) = (e.make)() else { continue };
            let mut r = seed_rng(sd, 1);
            let o = guarded(|| obj.sample(&mut r));
            m.insert((sd, i), (o, r));
        }
    }
    m
}

pub fn run_instance(sched: &Value, ea: &Entry, eb: &Entry, ca: i64, cb: i64, seed: u64, out: &mut Vec<String>, pristine: &Pristine, long: usize,
                    roundtrip: &dyn Fn(&dyn Obj) -> Option<Result<Box<dyn Obj>, String>>) -> bool {
    let (Some(a1), Some(b1), Some(a3)) = ((ea.make)(), (eb.make)(), (ea.make)()) else { return false };
    let mut objs: Vec<Box<dyn Obj>> = vec![a1, b1, a3];
    let mut maker: Vec<usize> = vec![0, 1, 0]; // which entry each object was built from
    let mut mutated: Vec<bool> = vec![false, false, false];
    let mut rngs: Vec<ScriptRng> = vec![seed_rng(seed, 1), seed_rng(seed, 1)];
    let mut sid: Intern<(Vec<u64>, u64)> = Intern::new();
    let mut oid: Intern<Vec<u64>> = Intern::new();
    let mut did: Intern<String> = Intern::new();
    let st0 = sid.id(rng_key(&rngs[0]));
    out.push(json!({"op": "reset", "ca": ca, "cb": cb, "st": st0, "a": ea.label(), "b": eb.label()}).to_string());
    for (o, c) in [(1i64, ca), (2i64, cb)] {
        if let Some((res, post_rng)) = pristine.get(&(seed, c as usize - 1)) {
            let (rs, outid) = match res { Ok(x) => ("Ok".to_string(), oid.id(x.bits.clone())), Err(p) => (format!("Panic: {}", p), 0) };
            let post = sid.id(rng_key(post_rng));
            out.push(json!({"op": "sample", "o": o, "r": 0, "pre": st0, "out": outid, "post": post, "res": rs, "fresh": true, "pristine": true}).to_string());
        }
    }
    // history-free chains (fresh value, fresh thread) of CHAIN successive samples from the first RNG state for both classes: the
    // epilogue below samples the same chain on the objects after the whole history
    // (`long` > 0: a long chain, for sibling pairs of the rejection samplers - the epilogue then INTERLEAVES the two objects call by
    // call on one thread, so that state keyed on an intermediate quantity of the rejection loop - a candidate, a table index - that
    // one object leaves behind is met by the other; a handful of calls almost never repeats such a key)
    const CHAIN: usize = 5;
    for (o, c) in [(1i64, ca), (2i64, cb)] {
        if let Some(ch) = fresh_chain(c as usize - 1, false, &seed_rng(seed, 1), CHAIN.max(long)) {
            for (pre_r, res, post_r) in ch {
                let pre = sid.id(rng_key(&pre_r));
                let (rs, outid) = match res { Ok(x) => ("Ok".to_string(), oid.id(x.bits)), Err(p) => (format!("Panic: {}", p), 0) };
                let post = sid.id(rng_key(&post_r));
                out.push(json!({"op": "sample", "o": o, "r": 0, "pre": pre, "out": outid, "post": post, "res": rs, "fresh": true, "chain": true}).to_string());
            }
        }
    }
    let mut sample_ev = |objs: &Vec<Box<dyn Obj>>, o: usize, rng: &mut ScriptRng, rlabel: i64,
                         sid: &mut Intern<(Vec<u64>, u64)>, oid: &mut Intern<Vec<u64>>, out: &mut Vec<String>| {
        let pre = sid.id(rng_key(rng));
        let r = guarded(|| objs[o].sample(rng));
        let (res, outid) = match r { Ok(x) => ("Ok".to_string(), oid.id(x.bits)), Err(p) => (format!("Panic: {}", p), 0) };
        let post = sid.id(rng_key(rng));
        out.push(json!({"op": "sample", "o": o + 1, "r": rlabel, "pre": pre, "out": outid, "post": post, "res": res}).to_string());
    };
    let mut fresh_done = [false; 3];
    for stp in sched.as_array().unwrap() {
        let op = stp["op"].as_str().unwrap();
        let o = stp["o"].as_i64().unwrap() as usize;
        let r = stp["r"].as_i64().unwrap() as usize;
        let a = stp["a"].as_i64().unwrap();
        match op {
            "sample" => {
                if !fresh_done[o - 1] {
                    // history-free reference for this (class, state): fresh value, fresh thread
                    fresh_done[o - 1] = true;
                    let ei = if maker[o - 1] == 0 { ca } else { cb } as usize - 1;
                    if let Some((res, post_rng)) = fresh_eval(ei, mutated[o - 1], &rngs[r - 1]) {
                        let pre = sid.id(rng_key(&rngs[r - 1]));
                        let (rs, outid) = match res { Ok(x) => ("Ok".to_string(), oid.id(x.bits)), Err(p) => (format!("Panic: {}", p), 0) };
                        let post = sid.id(rng_key(&post_rng));
                        out.push(json!({"op": "sample", "o": o, "r": 0, "pre": pre, "out": outid, "post": post, "res": rs, "fresh": true}).to_string());
                    }
                }
                let mut rr = rngs[r - 1].clone(); sample_ev(&objs, o - 1, &mut rr, r as i64, &mut sid, &mut oid, out); rngs[r - 1] = rr;
            }
            "iter" => {
                // shadow: two successive sample() calls on a scratch copy of the handle, logged with r = 0
                let mut scratch = rngs[r - 1].clone();
                sample_ev(&objs, o - 1, &mut scratch, 0, &mut sid, &mut oid, out);
                sample_ev(&objs, o - 1, &mut scratch, 0, &mut sid, &mut oid, out);
                let pre = sid.id(rng_key(&rngs[r - 1]));
                let mut rr = rngs[r - 1].clone();
                let res = guarded(|| objs[o - 1].sample_iter(&mut rr, 2));
                let (rs, outs): (String, Vec<i64>) = match res { Ok(v) => ("Ok".into(), v.into_iter().map(|x| oid.id(x.bits)).collect()), Err(p) => (format!("Panic: {}", p), vec![0, 0]) };
                rngs[r - 1] = rr;
                let post = sid.id(rng_key(&rngs[r - 1]));
                out.push(json!({"op": "iter", "o": o, "r": r, "pre": pre, "outs": outs, "post": post, "res": rs}).to_string());
            }
            "mutate" => {
                // the model's Mutate is "set weight i to w" (idempotent on the weight list); applying update(i, w) a second time
                // to a float tree may move subtotals by rounding, which is C09's business, so a value lineage is mutated once
                let ok = if mutated[o - 1] { true } else { guarded(|| objs[o - 1].mutate()).unwrap_or(false) };
                if ok { mutated[o - 1] = true; fresh_done[o - 1] = false; }
                out.push(json!({"op": "mutate", "o": o, "res": if ok { "Ok" } else { "NotMutable" }}).to_string());
            }
            "clone" => {
                // Clone has two methods: where the slot already holds a value of the same type, clone_from re-uses it (in place);
                // both must give a value of the source's class
                let (ai, oi) = (a as usize - 1, o - 1);
                let how = if ai != oi {
                    let src = objs[ai].clone_obj();
                    match guarded(|| { let mut tgt = objs[oi].clone_obj(); if tgt.clone_from_obj(src.as_ref()) { Some(tgt) } else { None } }) {
                        Ok(Some(t)) => { objs[oi] = t; "clone_from" }
                        Ok(None) => { objs[oi] = src; "clone" }
                        Err(_) => { objs[oi] = src; "clone_from panicked" }
                    }
                } else { "self" };
                maker[oi] = maker[ai]; mutated[oi] = mutated[ai];
                out.push(json!({"op": "clone", "o": o, "a": a, "how": how, "res": if how == "clone_from panicked" { "Panic: clone_from" } else { "Ok" }}).to_string());
            }
            "rebuild" => {
                let e = if maker[a as usize - 1] == 0 { ea } else { eb };
                // a second value from equal parameters: of the current weights where those are exact, else built the same way
                let built = if mutated[a as usize - 1] { objs[a as usize - 1].rebuild_equal().or_else(|| (e.make)().map(|mut c| { c.mutate(); c })) } else { (e.make)() };
                match built { Some(c) => { maker[o - 1] = maker[a as usize - 1]; mutated[o - 1] = mutated[a as usize - 1]; objs[o - 1] = c; out.push(json!({"op": "rebuild", "o": o, "a": a, "res": "Ok"}).to_string()); }
                                   None => out.push(json!({"op": "rebuild", "o": o, "a": a, "res": "ConstructorFailed"}).to_string()) }
            }
            "roundtrip" => {
                match roundtrip(objs[a as usize - 1].as_ref()) {
                    None => out.push(json!({"op": "roundtrip", "o": o, "a": a, "res": "NoSerdeImpl"}).to_string()),
                    Some(Ok(c)) => { maker[o - 1] = maker[a as usize - 1]; mutated[o - 1] = mutated[a as usize - 1]; objs[o - 1] = c; out.push(json!({"op": "roundtrip", "o": o, "a": a, "res": "Ok"}).to_string()); }
                    Some(Err(e)) => out.push(json!({"op": "roundtrip", "o": o, "a": a, "res": format!("Error: {}", e)}).to_string()),
                }
            }
            "eq" => { let res = match objs[o - 1].eq_obj(objs[a as usize - 1].as_ref()) { None => if maker[o - 1] == maker[a as usize - 1] { -1 } else { 0 }, Some(true) => 1, Some(false) => 0 };
                      if res == 0 && std::env::var("RDV_DEBUG").is_ok() { eprintln!("EQ0 {} vs {}\n  {}\n  {}", o, a, objs[o - 1].dbg(), objs[a as usize - 1].dbg()); }
                      out.push(json!({"op": "eq", "o": o, "a": a, "res": res}).to_string()); }
            "dbg" => { let h = did.id(objs[o - 1].dbg()); out.push(json!({"op": "dbg", "o": o, "h": h}).to_string()); }
            "rngclone" => { rngs[r - 1] = rngs[a as usize - 1].clone(); out.push(json!({"op": "rngclone", "r": r, "a": a}).to_string()); }
            "reseed" => { rngs[r - 1] = seed_rng(seed, a); let s = sid.id(rng_key(&rngs[r - 1])); out.push(json!({"op": "reseed", "r": r, "st": s}).to_string()); }
            _ => {}
        }
    }
    // epilogue: after the whole history, every object is sampled once more from the run's first RNG state on a scratch
    // handle (r = 0): "regardless of how many samples were drawn before from that or any other distribution object"
    // - the memo then compares these with the pristine references and with each other
    if long > 0 {
        let mut scr = [seed_rng(seed, 1), seed_rng(seed, 1)];
        let mut alive = [true, true];
        for _ in 0..long {
            for o in 0..2usize {
                if !alive[o] { continue; }
                let n0 = out.len();
                let mut sc = scr[o].clone();
                sample_ev(&objs, o, &mut sc, 0, &mut sid, &mut oid, out);
                scr[o] = sc;
                if out[n0..].iter().any(|l| l.contains("Panic")) { alive[o] = false; }
            }
        }
    }
    for o in 0..3usize {
        let mut scratch = seed_rng(seed, 1);
        for _ in 0..CHAIN {
            let n0 = out.len();
            sample_ev(&objs, o, &mut scratch, 0, &mut sid, &mut oid, out);
            if out[n0..].iter().any(|l| l.contains("Panic")) { break; }       // the RNG state after a panic is not a state of the model
        }
    }
    true
}

pub fn replay_with(args: &[String], roundtrip: &dyn Fn(&dyn Obj) -> Option<Result<Box<dyn Obj>, String>>, serde_only: bool) -> i32 {
    let seed = arg_u64(args, "--seed", 1);
    let max_sched = arg_u64(args, "--max-sched", 30) as usize;
    let outp = arg_val(args, "--out").unwrap();
    let mut passf = arg_val(args, "--passthrough").map(|p| std::fs::File::create(p).unwrap());
    let reg = registry();
    let mut scheds: Vec<Value> = vec![];
    let mut special: Vec<Value> = vec![];      // schedules in which an object is sampled, mutated and sampled again
    let mut total = 0u64;
    fn sample_mutate_sample(sc: &Value) -> bool {
        for o in 1..=3i64 {
            let mut st = 0;
            for e in sc.as_array().unwrap() {
                if e["o"].as_i64() != Some(o) { continue; }
                match (e["op"].as_str().unwrap_or(""), st) {
                    ("sample", 0) | ("iter", 0) => st = 1,
                    ("mutate", 1) => st = 2,
                    ("sample", 2) | ("iter", 2) => return true,
                    ("clone", _) | ("rebuild", _) | ("roundtrip", _) => st = 0,
                    _ => {}
                }
            }
        }
        false
    }
    for line in std::io::stdin().lock().lines() {
        let Ok(line) = line else { break };
        let Some(p) = tlc_payload(&line, "SCHED") else { if let Some(f) = passf.as_mut() { let _ = writeln!(f, "{}", line); } continue; };
        total += 1;
        // reservoir-free thinning: keep the first max_sched distinct schedules seen at a stride
        if serde_only && !p.contains("roundtrip") { continue; }
        if p.contains("mutate") && special.len() < max_sched / 3 + 1 {
            let v: Value = serde_json::from_str(&p).unwrap();
            if sample_mutate_sample(&v) { special.push(v); continue; }
        }
        if scheds.len() < max_sched && (total % 7 == 1 || total < 4) {
            scheds.push(serde_json::from_str(&p).unwrap());
        }
    }
    let keep = max_sched.saturating_sub(special.len());
    scheds.truncate(keep.max(1));
    scheds.extend(special);
    let mut f = std::io::BufWriter::new(std::fs::File::create(&outp).unwrap());
    let seeds: Vec<u64> = (0..scheds.len()).map(|si| seed.wrapping_add(si as u64)).collect();
    let pristine = pristine_pass(&reg, &seeds);
    let mut events = 0u64; let mut instances = 0u64; let mut skipped = 0u64; let mut twins = 0u64;
    let mut buf: Vec<String> = vec![];
    for (si, sc) in scheds.iter().enumerate() {
        for (i, ea) in reg.iter().enumerate() {
            if ea.variant == "beyond-E" { continue; }
            // partner: another entry (different class), rotating with the schedule index
            let j = (i + 1 + si * 7) % reg.len();
            let mut j = if j == i { (j + 1) % reg.len() } else { j };
            while reg[j].variant == "beyond-E" || j == i { j = (j + 1) % reg.len(); }
            if si % 3 == 2 {
                // twin: the same family, variant and parameters in the other float type (state shared across instantiations)
                if let Some(t) = (0..reg.len()).find(|&k| k != i && reg[k].family == ea.family && reg[k].ft != ea.ft && reg[k].variant == ea.variant && reg[k].params.len() == ea.params.len() && reg[k].params.iter().zip(&ea.params).all(|(a, b)| a == b || (a - b).abs() <= 1e-6 * b.abs()) && reg[k].ft != "int" && ea.ft != "int") { j = t; twins += 1; }
            }
            if si % 3 == 0 {
                // sibling: the neighbouring entry of the same family and float type (near-miss parameters)
                let sib = |k: i64| k >= 0 && (k as usize) < reg.len() && k as usize != i && reg[k as usize].family == ea.family && reg[k as usize].ft == ea.ft && reg[k as usize].variant != "beyond-E";
                // (entries of the weighted indices alternate between the two index types, so the neighbour may be two or three entries away;
                // among those prefer one with the same number of parameters)
                let cands: Vec<i64> = [1i64, -1, 2, -2, 3, -3, 4, -4].iter().map(|d| i as i64 + d).filter(|&k| sib(k)).collect();
                if let Some(&k) = cands.iter().find(|&&k| reg[k as usize].params.len() == ea.params.len()).or(cands.first()) { j = k as usize; }
            }
            // two registry entries with identical parameters are one class, not two (the model's classes A and B are distinct)
            if reg[j].label() == ea.label() { let mut t = (j + 1) % reg.len(); while reg[t].variant == "beyond-E" || t == i || reg[t].label() == ea.label() { t = (t + 1) % reg.len(); } j = t; }
            buf.clear();
            // long interleaved chains: sibling pairs (same family and float type) of the multi-word rejection samplers, first schedule only
            let long = if si == 0 && reg[j].family == ea.family && reg[j].ft == ea.ft && matches!(ea.family, "Hypergeometric" | "Binomial" | "Poisson" | "Zipf" | "Zeta" | "Beta" | "Gamma") { 200 } else { 0 };
            if run_instance(sc, ea, &reg[j], i as i64 + 1, j as i64 + 1, seed.wrapping_add(si as u64), &mut buf, &pristine, long, roundtrip) {
                instances += 1; events += buf.len() as u64;
                for l in &buf { writeln!(f, "{}", l).unwrap(); }
            } else { skipped += 1; }
        }
    }
    f.flush().unwrap();
    let variants: std::collections::BTreeSet<String> = reg.iter().map(|e| format!("{}:{}", e.family, e.variant)).collect();
    println!("{}", json!({"tool": "obj-replay", "schedules_seen": total, "schedules_used": scheds.len(), "registry_entries": reg.len(),
        "instances": instances, "twin_instances": twins, "pristine_references": pristine.len(), "events": events, "constructor_failed": skipped, "variants": variants,
        "sample_schedule": scheds.first()}));
    0
}

pub fn replay(args: &[String]) -> i32 { replay_with(args, &|_| None, false) }
