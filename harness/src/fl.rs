//! Float helpers shared by the harness: bit access, ulp neighbours, ordinals and limb encodings.
use num_traits::Float;

pub trait Fx: Float + std::fmt::Debug + std::fmt::LowerExp + 'static {
    const NAME: &'static str;
    const MANT_BITS: u32;
    fn bits64(self) -> u64;
    fn from_bits64(b: u64) -> Self;
    fn up(self) -> Self;
    fn down(self) -> Self;
    fn min_sub() -> Self;
    fn max_sub() -> Self;
    fn is_sub(self) -> bool { self != Self::zero() && self.is_finite() && self.abs() < Self::min_positive_value() }
    /// monotone ordinal: x < y  <=>  ord(x) < ord(y) (for non-NaN), -0 and +0 adjacent
    fn ord(self) -> i128;
    fn f64v(self) -> f64;
    fn of(x: f64) -> Self;
}
impl Fx for f32 {
    const NAME: &'static str = "f32";
    const MANT_BITS: u32 = 24;
    fn bits64(self) -> u64 { self.to_bits() as u64 }
    fn from_bits64(b: u64) -> Self { f32::from_bits(b as u32) }
    fn up(self) -> Self { if self.is_nan() || self == f32::INFINITY { return self; } if self == 0.0 { return f32::from_bits(1); } let b = self.to_bits(); if self > 0.0 { f32::from_bits(b + 1) } else { f32::from_bits(b - 1) } }
    fn down(self) -> Self { -((-self).up()) }
    fn min_sub() -> Self { f32::from_bits(1) }
    fn max_sub() -> Self { f32::from_bits(0x007f_ffff) }
    fn ord(self) -> i128 { let b = self.to_bits(); if b >> 31 == 0 { b as i128 } else { -((b & 0x7fff_ffff) as i128) } }
    fn f64v(self) -> f64 { self as f64 }
    fn of(x: f64) -> Self { x as f32 }
}
impl Fx for f64 {
    const NAME: &'static str = "f64";
    const MANT_BITS: u32 = 53;
    fn bits64(self) -> u64 { self.to_bits() }
    fn from_bits64(b: u64) -> Self { f64::from_bits(b) }
    fn up(self) -> Self { if self.is_nan() || self == f64::INFINITY { return self; } if self == 0.0 { return f64::from_bits(1); } let b = self.to_bits(); if self > 0.0 { f64::from_bits(b + 1) } else { f64::from_bits(b - 1) } }
    fn down(self) -> Self { -((-self).up()) }
    fn min_sub() -> Self { f64::from_bits(1) }
    fn max_sub() -> Self { f64::from_bits(0x000f_ffff_ffff_ffff) }
    fn ord(self) -> i128 { let b = self.to_bits(); if b >> 63 == 0 { b as i128 } else { -((b & 0x7fff_ffff_ffff_ffff) as i128) } }
    fn f64v(self) -> f64 { self }
    fn of(x: f64) -> Self { x }
}

/// ordinal of a float shifted to be non-negative and split into 21-bit limbs (most significant
/// first) so that TLC (32-bit ints, JSON numbers < 2^31) can compare and subtract exactly
pub fn ord_limbs<F: Fx>(x: F) -> Vec<i64> {
    let o = x.ord() + (1i128 << 63);
    vec![((o >> 42) & 0x3f_ffff) as i64, ((o >> 21) & 0x1f_ffff) as i64, (o & 0x1f_ffff) as i64]
}
pub fn u64_limbs(x: u64) -> Vec<i64> {
    vec![((x >> 42) & 0x3f_ffff) as i64, ((x >> 21) & 0x1f_ffff) as i64, (x & 0x1f_ffff) as i64]
}
pub fn class_of<F: Fx>(x: F) -> &'static str {
    if x.is_nan() { "nan" } else if x == F::infinity() { "pinf" } else if x == F::neg_infinity() { "ninf" } else { "fin" }
}
