//! C07 / C11: paired executions on cloned RNG streams for TraceCompose.tla.
use crate::fl::*;
use crate::reg::{b, Obj, Out};
use crate::rng::{ScriptRng, Sm};
use crate::sup::lattice;
use crate::util::*;
use rand_distr::multi::{Dirichlet, MultiDistribution};
use rand_distr::*;
use serde_json::{json, Value};
use std::io::Write;

pub trait Fc: Fx + rand::distr::uniform::SampleUniform + num_traits::FloatConst + core::fmt::Display + core::iter::Sum<Self> {}
impl Fc for f32 {}
impl Fc for f64 {}

fn build<F: Fc>(fam: &str, sh: &[F], loc: F, scale: F) -> Option<Box<dyn Obj>>
where StandardNormal: Distribution<F>, Exp1: Distribution<F>, Open01: Distribution<F>, OpenClosed01: Distribution<F>, StandardUniform: Distribution<F>,
      F: crate::reg::IntoOut + crate::reg::Ser, Normal<F>: crate::reg::Ser, LogNormal<F>: crate::reg::Ser, Cauchy<F>: crate::reg::Ser, Gumbel<F>: crate::reg::Ser,
      Frechet<F>: crate::reg::Ser, SkewNormal<F>: crate::reg::Ser, Exp<F>: crate::reg::Ser, Gamma<F>: crate::reg::Ser, Weibull<F>: crate::reg::Ser,
      Pareto<F>: crate::reg::Ser, InverseGaussian<F>: crate::reg::Ser, Triangular<F>: crate::reg::Ser, Pert<F>: crate::reg::Ser {
    match fam {
        "Normal" => Normal::new(loc, scale).ok().and_then(b::<_, F>),
        "LogNormal" => LogNormal::new(loc, scale).ok().and_then(b::<_, F>),
        "Cauchy" => Cauchy::new(loc, scale).ok().and_then(b::<_, F>),
        "Gumbel" => Gumbel::new(loc, scale).ok().and_then(b::<_, F>),
        "Frechet" => Frechet::new(loc, scale, sh[0]).ok().and_then(b::<_, F>),
        "SkewNormal" => SkewNormal::new(loc, scale, sh[0]).ok().and_then(b::<_, F>),
        "Exp" => Exp::new(F::one() / scale).ok().and_then(b::<_, F>),
        "Gamma" => Gamma::new(sh[0], scale).ok().and_then(b::<_, F>),
        "Weibull" => Weibull::new(scale, sh[0]).ok().and_then(b::<_, F>),
        "Pareto" => Pareto::new(scale, sh[0]).ok().and_then(b::<_, F>),
        "InverseGaussian" => InverseGaussian::new(sh[0] * scale, sh[1] * scale).ok().and_then(b::<_, F>),
        "Triangular" => Triangular::new(loc + scale * sh[0], loc + scale * sh[1], loc + scale * sh[2]).ok().and_then(b::<_, F>),
        "Pert" => Pert::new(loc + scale * sh[0], loc + scale * sh[1]).with_shape(sh[3]).with_mode(loc + scale * sh[2]).ok().and_then(b::<_, F>),
        _ => None,
    }
}
fn has_loc(fam: &str) -> bool { matches!(fam, "Normal" | "LogNormal" | "Cauchy" | "Gumbel" | "Frechet" | "SkewNormal" | "Triangular" | "Pert") }

fn decomp(kind: &str, bits: u64) -> Value {
    if kind == "f32" {
        let b = bits as u32; let e = (b >> 23) & 0xff; let m = b & 0x7f_ffff;
        json!({"s": b >> 31, "e": e, "m": [0, m], "z": (b & 0x7fff_ffff) == 0, "n": e != 0 && e != 0xff})
    } else {
        let e = (bits >> 52) & 0x7ff; let m = bits & 0xf_ffff_ffff_ffff;
        json!({"s": bits >> 63, "e": e, "m": [(m >> 26) as u32, (m & 0x3ff_ffff) as u32], "z": (bits & 0x7fff_ffff_ffff_ffff) == 0, "n": e != 0 && e != 0x7ff})
    }
}
fn to_f<F: Fx>(o: &Out) -> F { F::from_bits64(o.bits[0]) }

fn streams(rnd: &mut Sm, nrand: usize) -> Vec<(ScriptRng, Value)> {
    let mut v = vec![];
    for _ in 0..nrand { v.push((ScriptRng::seeded(rnd.next()), json!("random"))); }
    let lat = lattice();
    for pos in 0..4usize { for &w in lat.iter().step_by(3) { v.push((ScriptRng::adversarial(rnd.next(), pos, w), json!(format!("adv pos {} word {:#x}", pos, w)))); } }
    v
}

fn c07<F: Fc>(seed: u64, nrand: usize, out: &mut Vec<String>)
where StandardNormal: Distribution<F>, Exp1: Distribution<F>, Open01: Distribution<F>, OpenClosed01: Distribution<F>, StandardUniform: Distribution<F>,
      F: crate::reg::IntoOut + crate::reg::Ser, Normal<F>: crate::reg::Ser, LogNormal<F>: crate::reg::Ser, Cauchy<F>: crate::reg::Ser, Gumbel<F>: crate::reg::Ser,
      Frechet<F>: crate::reg::Ser, SkewNormal<F>: crate::reg::Ser, Exp<F>: crate::reg::Ser, Gamma<F>: crate::reg::Ser, Weibull<F>: crate::reg::Ser,
      Pareto<F>: crate::reg::Ser, InverseGaussian<F>: crate::reg::Ser, Triangular<F>: crate::reg::Ser, Pert<F>: crate::reg::Ser {
    let mut rnd = Sm(seed);
    let f = |x: f64| F::of(x);
    let fams: Vec<(&str, Vec<Vec<F>>)> = vec![
        ("Normal", vec![vec![]]), ("Cauchy", vec![vec![]]), ("Gumbel", vec![vec![]]),
        // shapes include the exponents for which a special-cased power is plausible (1/2, 1, 2, 3)
        ("Frechet", vec![vec![f(1.0)], vec![f(0.5)], vec![f(7.0)], vec![f(2.0)], vec![f(3.0)]]), ("SkewNormal", vec![vec![f(0.0)], vec![f(1.0)], vec![f(-1.0)], vec![f(5.0)]]),
        ("Exp", vec![vec![]]), ("Gamma", vec![vec![f(0.25)], vec![f(1.0)], vec![f(2.5)], vec![f(40.0)], vec![f(0.5)], vec![f(2.0)], vec![f(3.0)]]),
        ("Weibull", vec![vec![f(1.0)], vec![f(0.3)], vec![f(4.0)], vec![f(2.0)], vec![f(0.5)], vec![f(3.0)]]), ("Pareto", vec![vec![f(1.0)], vec![f(0.5)], vec![f(20.0)], vec![f(2.0)], vec![f(3.0)]]),
        ("InverseGaussian", vec![vec![f(1.0), f(1.0)], vec![f(0.5), f(3.0)]]),
        ("Triangular", vec![vec![f(0.0), f(1.0), f(0.5)], vec![f(0.0), f(1.0), f(0.0)], vec![f(-1.0), f(3.0), f(3.0)]]),
        ("Pert", vec![vec![f(0.0), f(1.0), f(0.5), f(4.0)], vec![f(-1.0), f(1.0), f(-0.25), f(2.0)]]),
        ("LogNormal", vec![vec![]]),
    ];
    let locscales: Vec<(F, F)> = vec![(f(0.0), f(1.0)), (f(3.0), f(0.5)), (f(-7.25), f(12.0)), (f(1000.0), f(0.001)), (f(0.1), f(3.3)), (f(-0.375), f(1.0e-3))];
    for (fam, shapes) in &fams {
        for sh in shapes {
            for (si, (mut rng0, tag)) in streams(&mut rnd, nrand).into_iter().enumerate() {
                let (loc, scale) = locscales[si % locscales.len()];
                let loc = if has_loc(fam) { loc } else { F::zero() };
                let scale = if *fam == "Normal" && si % 5 == 0 { -scale } else { scale };   // negative std_dev is documented as allowed
                let scale = if matches!(*fam, "Normal" | "LogNormal") && si % 7 == 3 { F::zero() } else { scale };  // sigma = 0 is a valid (degenerate) scale
                let Some(d1) = build::<F>(fam, sh, loc, scale) else { continue };
                let _ = &mut rng0;
                // R1 / R2: exact homogeneity under 2^k (not for LogNormal: affine only in log space)
                // k spans the scale range S of envelope E (1e-12..1e12 for f64, 1e-6..1e6 for f32; InverseGaussian: 1e-3..1e3)
                let big: [i32; 4] = if F::NAME == "f32" { [-16, -9, 9, 16] } else { [-36, -18, 18, 36] };
                let k: i32 = if *fam != "InverseGaussian" && si % 3 == 1 && scale.abs() <= F::of(12.0) && scale.abs() >= F::of(0.001) { big[(si / 3) % 4] } else { [-8, -3, -1, 1, 2, 5, 8][si % 7] };
                let two_k = F::of(2f64.powi(k));
                if *fam != "LogNormal" {
                    if let Some(d2) = build::<F>(fam, sh, loc * two_k, scale * two_k) {
                        let (mut ra, mut rb) = (rng0.clone(), rng0.clone());
                        let (oa, ob) = (guarded(|| d1.sample(&mut ra)), guarded(|| d2.sample(&mut rb)));
                        match (oa, ob) {
                            (Ok(a), Ok(bb)) => out.push(json!({"op": "r1", "fam": fam, "ft": F::NAME, "k": k, "res": "Ok", "wa": ra.words(), "wb": rb.words(),
                                "a": a.bits.iter().map(|&x| decomp(a.kind, x)).collect::<Vec<_>>(), "b": bb.bits.iter().map(|&x| decomp(bb.kind, x)).collect::<Vec<_>>(),
                                "show": [format!("{:e}", to_f::<F>(&a)), format!("{:e}", to_f::<F>(&bb))], "params": [format!("{:e}", loc), format!("{:e}", scale)], "stream": tag}).to_string()),
                            (x, y) => out.push(json!({"op": "r1", "fam": fam, "ft": F::NAME, "k": k, "res": format!("Panic: {:?} {:?}", x.err(), y.err()), "wa": 0, "wb": 0, "a": [], "b": [], "stream": tag}).to_string()),
                        }
                    }
                }
                // R3: affine image of the canonical sample (location-scale families with an explicit loc + scale * b form)
                if matches!(*fam, "Normal" | "Cauchy" | "Gumbel" | "Frechet" | "SkewNormal" | "Exp" | "Gamma" | "Weibull" | "Pareto") {
                    if let Some(d0) = build::<F>(fam, sh, F::zero(), F::one()) {
                        let (mut ra, mut rb) = (rng0.clone(), rng0.clone());
                        let (o0, o1) = (guarded(|| d0.sample(&mut ra)), guarded(|| d1.sample(&mut rb)));
                        if let (Ok(b0), Ok(g)) = (o0, o1) {
                            let bv: F = to_f(&b0); let gv: F = to_f(&g);
                            let sc = if *fam == "Exp" { F::one() / (F::one() / scale) } else { scale };     // Exp stores 1/lambda
                            let refv = if has_loc(fam) { loc + sc * bv } else { sc * bv };                 // one multiply, one add (declared)
                            let finite = refv.is_finite() && gv.is_finite();
                            out.push(json!({"op": "r3", "fam": fam, "ft": F::NAME, "res": "Ok", "wa": ra.words(), "wb": rb.words(), "finite": finite,
                                "got": if finite { ord_limbs(gv) } else { vec![0, 0, 0] }, "ref": if finite { ord_limbs(refv) } else { vec![0, 0, 0] },
                                "show": [format!("{:e}", bv), format!("{:e}", gv), format!("{:e}", refv)], "params": [format!("{:e}", loc), format!("{:e}", scale)], "stream": tag}).to_string());
                        }
                    }
                }
                // R3t: Triangular / Pert under a GENERAL affine map (non-dyadic location and scale): the mapped distribution is built from the
                // rounded images of (min, max, mode); its sample must be the affine image of the base sample up to rounding, with the same words
                // (Pert at its symmetric point is left out: Beta::new orders its two parameters, and the rounded images of a symmetric
                // triple are not symmetric, so the mapped sampler may legitimately be the mirror image of the base one)
                if matches!(*fam, "Triangular" | "Pert") && !(*fam == "Pert" && sh[2] - sh[0] == sh[1] - sh[2]) {
                    let (l2, s2) = [(f(0.1), f(0.3)), (f(-2.7), f(1.9)), (f(10.3), f(0.07)), (f(0.0), f(3.3))][si % 4];
                    if let (Some(d0), Some(dm)) = (build::<F>(fam, sh, F::zero(), F::one()), build::<F>(fam, sh, l2, s2)) {
                        let (mut ra, mut rb) = (rng0.clone(), rng0.clone());
                        let (o0, o1) = (guarded(|| d0.sample(&mut ra)), guarded(|| dm.sample(&mut rb)));
                        if let (Ok(b0), Ok(g)) = (o0, o1) {
                            let bv: F = to_f(&b0); let gv: F = to_f(&g);
                            let refv = l2 + s2 * bv;
                            // judged where the image is not close to zero (relative precision is meaningless there): |ref| >= scale / 8
                            // ... and the base sample is not within 2^-20 of an end of [min, max] (the square root next to an end amplifies the
                            // rounding of the mapped corners to about sqrt(ulp))
                            let edge = (sh[1] - sh[0]) * f(9.5367431640625e-7);
                            let big = refv.abs() >= s2.abs() / f(8.0) && bv - sh[0] >= edge && sh[1] - bv >= edge;
                            let finite = refv.is_finite() && gv.is_finite();
                            out.push(json!({"op": "r3t", "fam": fam, "ft": F::NAME, "res": "Ok", "wa": ra.words(), "wb": rb.words(), "finite": finite, "big": big,
                                "got": if finite { ord_limbs(gv) } else { vec![0, 0, 0] }, "ref": if finite { ord_limbs(refv) } else { vec![0, 0, 0] },
                                "show": [format!("{:e}", bv), format!("{:e}", gv), format!("{:e}", refv)], "params": [format!("{:e}", l2), format!("{:e}", s2)], "stream": tag}).to_string());
                        }
                    }
                }
                // LogNormal(mu, sigma).sample == exp(Normal(mu, sigma).sample) on the same stream
                if *fam == "LogNormal" {
                    if let Some(dn) = build::<F>("Normal", sh, loc, scale) {
                        let (mut ra, mut rb) = (rng0.clone(), rng0.clone());
                        if let (Ok(l), Ok(n)) = (guarded(|| d1.sample(&mut ra)), guarded(|| dn.sample(&mut rb))) {
                            let lv: F = to_f(&l); let rv: F = to_f::<F>(&n).exp();
                            let finite = lv.is_finite() && rv.is_finite();
                            out.push(json!({"op": "id", "fam": fam, "ft": F::NAME, "res": "Ok", "wa": ra.words(), "wb": rb.words(), "finite": finite,
                                "got": if finite { ord_limbs(lv) } else { vec![0, 0, 0] }, "ref": if finite { ord_limbs(rv) } else { vec![0, 0, 0] }, "stream": tag}).to_string());
                        }
                    }
                }
            }
        }
    }
    // Triangular: exact quantile identity on the lattice of squares (f = j^2/2^16 on the left branch, 1 - f = j^2/2^16 on the right)
    for (mn, mx, md) in [(0i64, 4i64, 1i64), (0, 4, 3), (-2, 2, -1), (-2, 2, 1), (0, 4, 0), (0, 4, 4), (1, 5, 2)] {
        let Ok(t) = Triangular::new(F::of(mn as f64), F::of(mx as f64), F::of(md as f64)) else { continue };
        for j in 0..=256i64 { for side in 0..2 {
            let fnum = if side == 0 { j * j } else { 65536 - j * j };
            if !(0..65536).contains(&fnum) { continue; }
            // keep only lattice points where the quantile is an exact dyadic: the product under the square root is a perfect square
            let (range, dm, um) = (mx - mn, md - mn, mx - md);
            let prod = if fnum * range < dm * 65536 { fnum * range * dm } else { (65536 - fnum) * range * um };
            let rt = (prod as f64).sqrt().round() as i64;
            if rt * rt != prod { continue; }
            // StandardUniform: f32 takes the top 24 bits, f64 the top 53: fnum/2^16 is representable in both
            let word: u64 = (fnum as u64) << 48;
            let mut rng = ScriptRng::new(vec![word], 3);
            let r = guarded(|| t.sample(&mut rng));
            let (res, xq, yq) = match r { Ok(x) => { let a = (x.f64v() - mn as f64) * 256.0; let b = (mx as f64 - x.f64v()) * 256.0;
                ("Ok".to_string(), if a.fract() == 0.0 { a as i64 } else { -1 }, if b.fract() == 0.0 { b as i64 } else { -1 }) } Err(p) => (format!("Panic: {}", p), -1, -1) };
            out.push(json!({"op": "tri", "ft": F::NAME, "mn": mn, "mx": mx, "md": md, "fn": fnum, "xq": xq, "yq": yq, "words": rng.words(), "res": res}).to_string());
        } }
    }
    // R1x / R2 beyond the scale range of envelope E, for the families whose sampler applies the scale as its LAST multiplication to a
    // parameter-free draw (so exactness of a 2^k scale does not depend on the magnitude): scale 1 against scale 2^k on the same stream.
    // Judged by TraceCompose "r1x": same words; a normal result whose exponent + k stays in the normal range is reproduced exactly; one
    // whose exponent + k overflows becomes the infinity of the same sign (the rounding of the map).  Heavy-tailed shapes below E are included
    // because there the scaled value overflows on ordinary draws while the unit-scale value does not.
    {
        let emax: i32 = if F::NAME == "f32" { 254 } else { 2046 };
        let xk: [i32; 4] = if F::NAME == "f32" { [-120, -60, 100, 126] } else { [-1000, -500, 900, 1022] };
        let ik: [i32; 4] = if F::NAME == "f32" { [-30, -26, 26, 30] } else { [-100, -60, 60, 100] };
        let tiny_shape = if F::NAME == "f32" { f(0.05) } else { f(0.005) };
        let xf: Vec<(&str, Vec<F>)> = vec![
            ("Normal", vec![]), ("Cauchy", vec![]), ("Gumbel", vec![]), ("Exp", vec![]), ("SkewNormal", vec![f(1.0)]),
            ("Frechet", vec![f(0.5)]), ("Frechet", vec![f(0.05)]), ("Gamma", vec![f(0.25)]), ("Gamma", vec![f(0.05)]), ("Gamma", vec![f(1.0)]), ("Gamma", vec![f(2.5)]),
            ("Weibull", vec![f(0.3)]), ("Weibull", vec![f(0.05)]), ("Pareto", vec![f(0.5)]), ("Pareto", vec![tiny_shape]), ("Pareto", vec![f(0.05)]),
            ("InverseGaussian", vec![f(1.0), f(3.0)]), ("InverseGaussian", vec![f(0.5), f(0.25)]),
        ];
        for (fam, sh) in &xf {
            let Some(d1) = build::<F>(fam, sh, F::zero(), F::one()) else { continue };
            for (si, (rng0, tag)) in streams(&mut rnd, nrand).into_iter().enumerate() {
                let k = if *fam == "InverseGaussian" { ik[si % 4] } else { xk[si % 4] };
                let two_k = F::of(2f64.powi(k));
                let Some(d2) = build::<F>(fam, sh, F::zero(), two_k) else { continue };
                let (mut ra, mut rb) = (rng0.clone(), rng0.clone());
                match (guarded(|| d1.sample(&mut ra)), guarded(|| d2.sample(&mut rb))) {
                    (Ok(a), Ok(bb)) => out.push(json!({"op": "r1x", "fam": fam, "ft": F::NAME, "k": k, "emax": emax, "res": "Ok", "wa": ra.words(), "wb": rb.words(),
                        "a": a.bits.iter().map(|&x| decomp(a.kind, x)).collect::<Vec<_>>(), "b": bb.bits.iter().map(|&x| decomp(bb.kind, x)).collect::<Vec<_>>(),
                        "show": [format!("{:e}", to_f::<F>(&a)), format!("{:e}", to_f::<F>(&bb))], "params": [format!("{:?}", sh.iter().map(|x| x.f64v()).collect::<Vec<_>>()), format!("2^{}", k)], "stream": tag}).to_string()),
                    (x, y) => out.push(json!({"op": "r1x", "fam": fam, "ft": F::NAME, "k": k, "emax": emax, "res": format!("Panic: {:?} {:?}", x.err(), y.err()), "wa": 0, "wb": 0, "a": [], "b": [], "stream": tag}).to_string()),
                }
            }
        }
    }
    // from_zscore on the dyadic lattice k/16
    for _ in 0..(nrand * 4) {
        let (m, s, z) = (rnd.below(129) as i64 - 64, rnd.below(129) as i64 - 64, rnd.below(129) as i64 - 64);
        let n = Normal::new(F::of(m as f64 / 16.0), F::of(s as f64 / 16.0)).unwrap();
        let r = n.from_zscore(F::of(z as f64 / 16.0)).f64v() * 256.0;
        out.push(json!({"op": "zs", "ft": F::NAME, "m": m, "s": s, "z": z, "r256": if r.fract() == 0.0 { r as i64 } else { 999_999_999 }}).to_string());
        let ln = LogNormal::new(F::of(m as f64 / 16.0), F::of(s as f64 / 16.0)).unwrap();
        let (g, rf) = (ln.from_zscore(F::of(z as f64 / 16.0)), n.from_zscore(F::of(z as f64 / 16.0)).exp());
        let finite = g.is_finite() && rf.is_finite();
        out.push(json!({"op": "id", "fam": "LogNormal::from_zscore", "ft": F::NAME, "res": "Ok", "wa": 0, "wb": 0, "finite": finite,
            "got": if finite { ord_limbs(g) } else { vec![0, 0, 0] }, "ref": if finite { ord_limbs(rf) } else { vec![0, 0, 0] }, "stream": "n/a"}).to_string());
    }
}

fn c11<F: Fc + Default>(seed: u64, nrand: usize, out: &mut Vec<String>)
where StandardNormal: Distribution<F>, Exp1: Distribution<F>, Open01: Distribution<F>, OpenClosed01: Distribution<F>, StandardUniform: Distribution<F> {
    let mut rnd = Sm(seed);
    // alpha vectors: dyadic (k/64: wiring is replayed) and general (structure only)
    let mut alphas: Vec<(Vec<F>, Option<Vec<i64>>)> = vec![];
    let dy = |v: Vec<i64>| -> (Vec<F>, Option<Vec<i64>>) { (v.iter().map(|&k| F::of(k as f64 / 64.0)).collect(), Some(v)) };
    alphas.push(dy(vec![3, 2, 5, 4]));            // all <= 0.1 (0.047, 0.031, 0.078, 0.0625)
    alphas.push(dy(vec![6, 6, 6]));               // 0.09375 each: all <= 0.1, symmetric
    alphas.push(dy(vec![32, 128, 5, 448]));       // mixed, some > 0.1
    alphas.push(dy(vec![64, 64]));
    alphas.push(dy(vec![1, 1, 1, 1, 1, 1]));      // 1/64
    alphas.push(dy(vec![6, 7, 6]));               // straddling 0.1 (7/64 = 0.109)
    alphas.push(dy(vec![640, 3, 64000, 17, 200]));
    // straddling 0.1 with the small entries last (which construction is used must not depend on the position of the small entries)
    alphas.push(dy(vec![128, 192, 3])); alphas.push(dy(vec![64000, 1])); alphas.push(dy(vec![7, 6, 6])); alphas.push(dy(vec![320, 5, 4, 3]));
    for _ in 0..6 { let n = 2 + rnd.below(7) as usize; alphas.push(dy((0..n).map(|_| { let top = if rnd.below(2) == 0 { 6 } else { 400 }; 1 + rnd.below(top) as i64 }).collect())); }
    for len in [2usize, 5, 17, 64] { for shape in 0..3 {
        let v: Vec<F> = (0..len).map(|i| F::of(match shape { 0 => 0.01 + 0.001 * i as f64, 1 => 0.5 + 3.0 * i as f64, _ => if i % 2 == 0 { 0.05 } else { 700.0 } })).collect();
        alphas.push((v, None));
    } }
    alphas.push((vec![F::of(0.1), F::of(0.1), F::of(0.1)], None));
    for (alpha, dyadic) in &alphas {
        let Ok(d) = Dirichlet::<F>::new(alpha) else { continue };
        let n = alpha.len();
        for (rng0, tag) in streams(&mut rnd, nrand / 4 + 2) {
            let (mut r1, mut r2) = (rng0.clone(), rng0.clone());
            let o1 = guarded(|| Distribution::<Vec<F>>::sample(&d, &mut r1));
            let mut buf = vec![F::zero(); d.sample_len()];
            let o2 = guarded(|| d.sample_to_slice(&mut r2, &mut buf));
            let (Ok(v), Ok(())) = (o1, o2) else {
                out.push(json!({"op": "dir", "ft": F::NAME, "res": "Panic", "n": n, "out": [], "nonan": false, "sum": [0, 0, 0], "api_same": false, "wired": false, "stream": tag}).to_string());
                continue;
            };
            let api_same = v.len() == buf.len() && v.iter().zip(buf.iter()).all(|(a, b)| a.bits64() == b.bits64()) && r1 == r2;
            let nonan = v.iter().all(|x| !x.is_nan());
            let mut sum = F::zero(); for &x in &v { sum = sum + x; }
            let ol = |x: F| if x.is_nan() { vec![0, 0, 0] } else { ord_limbs(x) };
            let mut ev = json!({"op": "dir", "ft": F::NAME, "res": "Ok", "n": n, "out": v.iter().map(|&x| ol(x)).collect::<Vec<_>>(), "nonan": nonan,
                "sum": ol(sum), "outcls": v.iter().map(|&x| class_of(x)).collect::<Vec<_>>(), "zeros": v.iter().filter(|&&x| x == F::zero()).count(), "api_same": api_same, "w": r1.words(), "wired": false, "stream": tag, "alpha": alpha.iter().map(|x| format!("{:e}", x)).collect::<Vec<_>>()});
            if let Some(a64) = dyadic {
                // the two documented constructions, built from the crate's public Beta / Gamma on clones of the stream
                let mut rsb = rng0.clone();
                let mut sbp: Vec<Vec<i64>> = vec![]; let mut sb: Vec<F> = vec![]; let mut acc = F::one(); let mut ok = true;
                for i in 0..n - 1 {
                    let tail: i64 = a64[i + 1..].iter().sum();
                    sbp.push(vec![a64[i], tail]);
                    let (pa, pb) = (F::of(a64[i] as f64 / 64.0), F::of(tail as f64 / 64.0));
                    match Beta::new(pa, pb) { Ok(bd) => { let s: F = bd.sample(&mut rsb); sb.push(acc * s); acc = acc * (F::one() - s); } Err(_) => { ok = false; break; } }
                }
                sb.push(acc);
                let mut rgn = rng0.clone();
                let mut gnp: Vec<Vec<i64>> = vec![]; let mut g: Vec<F> = vec![]; let mut gs = F::zero();
                for i in 0..n { gnp.push(vec![a64[i], 64]);
                    match Gamma::new(F::of(a64[i] as f64 / 64.0), F::one()) { Ok(gd) => { let s: F = gd.sample(&mut rgn); g.push(s); gs = gs + s; } Err(_) => { ok = false; break; } } }
                let inv = F::one() / gs;
                let gn: Vec<F> = g.iter().map(|&x| x * inv).collect();
                if ok {
                    ev["wired"] = json!(true); ev["alpha64"] = json!(a64); ev["sbp"] = json!(sbp); ev["gnp"] = json!(gnp);
                    ev["sb"] = json!(sb.iter().map(|&x| ol(x)).collect::<Vec<_>>()); ev["wsb"] = json!(rsb.words());
                    ev["gn"] = json!(gn.iter().map(|&x| ol(x)).collect::<Vec<_>>()); ev["wgn"] = json!(rgn.words());
                    let close = |a: &Vec<F>, b: &Vec<F>| a.len() == b.len() && a.iter().zip(b.iter()).all(|(x, y)| (x.ord() - y.ord()).abs() <= 4);
                    ev["matched"] = json!(if close(&v, &sb) { "stick-breaking" } else if close(&v, &gn) { "gamma-normalisation" } else { "neither" });
                }
            }
            out.push(ev.to_string());
        }
    }
}

/// C01 (composition layer): derived distributions are the documented functions of the crate's own primitives.
/// Each event pairs the derived sampler with the documented construction evaluated with PUBLIC primitives on a
/// clone of the stream; TraceCompose requires equal word consumption (else: another construction, not judged) and
/// agreement within a few ordinals.
fn c01<F: Fc + Default>(seed: u64, nrand: usize, out: &mut Vec<String>)
where StandardNormal: Distribution<F>, Exp1: Distribution<F>, Open01: Distribution<F>, OpenClosed01: Distribution<F>, StandardUniform: Distribution<F> {
    let mut rnd = Sm(seed);
    let f = |x: f64| F::of(x);
    let mut push = |fam: &str, params: Vec<F>, got: Result<F, String>, wa: u64, refv: Result<F, String>, wb: u64, tag: &Value, out: &mut Vec<String>| {
        match (got, refv) {
            (Ok(g), Ok(r)) => { let finite = g.is_finite() && r.is_finite();
                out.push(json!({"op": "wire", "fam": fam, "ft": F::NAME, "res": "Ok", "wa": wa, "wb": wb, "finite": finite, "same_class": class_of(g) == class_of(r), "gcls": class_of(g),
                    "got": if finite { ord_limbs(g) } else { vec![0, 0, 0] }, "ref": if finite { ord_limbs(r) } else { vec![0, 0, 0] },
                    "show": [format!("{:e}", g), format!("{:e}", r)], "params": params.iter().map(|x| format!("{:e}", x)).collect::<Vec<_>>(), "stream": tag}).to_string()); }
            (g, r) => out.push(json!({"op": "wire", "fam": fam, "ft": F::NAME, "res": format!("Panic: {:?} / {:?}", g.err(), r.err()), "wa": wa, "wb": wb, "finite": false, "same_class": false, "gcls": "panic",
                    "got": [0, 0, 0], "ref": [0, 0, 0], "params": params.iter().map(|x| format!("{:e}", x)).collect::<Vec<_>>(), "stream": tag}).to_string()),
        }
    };
    for (rng0, tag) in streams(&mut rnd, nrand) {
        // ChiSquared(k): N^2 for k = 1, Gamma(k/2, 2) otherwise
        for k in [f(1.0), f(0.5), f(2.0), f(3.0), f(7.5), f(100.0)] {
            let Ok(d) = ChiSquared::new(k) else { continue };
            let (mut ra, mut rb) = (rng0.clone(), rng0.clone());
            let got = guarded(|| d.sample(&mut ra));
            let refv = if k == F::one() { guarded(|| { let n: F = StandardNormal.sample(&mut rb); n * n }) } else { guarded(|| Gamma::new(f(0.5) * k, f(2.0)).unwrap().sample(&mut rb)) };
            push("ChiSquared", vec![k], got, ra.words(), refv, rb.words(), &tag, out);
        }
        // StudentT(nu) = N * sqrt(nu / ChiSquared(nu))
        for nu in [f(1.0), f(0.5), f(2.0), f(5.0), f(30.0)] {
            let Ok(d) = StudentT::new(nu) else { continue };
            let (mut ra, mut rb) = (rng0.clone(), rng0.clone());
            let got = guarded(|| d.sample(&mut ra));
            let refv = guarded(|| { let n: F = StandardNormal.sample(&mut rb); let c: F = ChiSquared::new(nu).unwrap().sample(&mut rb); n * (nu / c).sqrt() });
            push("StudentT", vec![nu], got, ra.words(), refv, rb.words(), &tag, out);
        }
        // FisherF(m, n) = (ChiSquared(m) / m) / (ChiSquared(n) / n)
        for (m, n) in [(f(1.0), f(1.0)), (f(2.0), f(7.0)), (f(0.5), f(10.0)), (f(12.0), f(3.0))] {
            let Ok(d) = FisherF::new(m, n) else { continue };
            let (mut ra, mut rb) = (rng0.clone(), rng0.clone());
            let got = guarded(|| d.sample(&mut ra));
            let refv = guarded(|| { let a: F = ChiSquared::new(m).unwrap().sample(&mut rb); let b2: F = ChiSquared::new(n).unwrap().sample(&mut rb); (a / m) / (b2 / n) });
            push("FisherF", vec![m, n], got, ra.words(), refv, rb.words(), &tag, out);
        }
        // Pert(min, max, mode, shape) = min + (max - min) * Beta(1 + shape (mode-min)/range, 1 + shape (max-mode)/range)
        for (mn, mx, md, sh) in [(f(0.0), f(1.0), f(0.5), f(4.0)), (f(-2.0), f(6.0), f(0.0), f(4.0)), (f(1.0), f(3.0), f(3.0), f(2.0)), (f(0.0), f(10.0), f(1.0), f(0.0)), (f(-1.0), f(1.0), f(0.25), f(10.0))] {
            let Ok(d) = Pert::new(mn, mx).with_shape(sh).with_mode(md) else { continue };
            let (mut ra, mut rb) = (rng0.clone(), rng0.clone());
            let got = guarded(|| d.sample(&mut ra));
            let range = mx - mn;
            let refv = guarded(|| { let bb: F = Beta::new(F::one() + sh * (md - mn) / range, F::one() + sh * (mx - md) / range).unwrap().sample(&mut rb); mn + range * bb });
            push("Pert", vec![mn, mx, md, sh], got, ra.words(), refv, rb.words(), &tag, out);
        }
        // Pert::with_mean(mean) is the Pert whose mode satisfies mean = (min + shape * mode + max) / (shape + 2)
        // (dyadic points where the relation is exact: the reference is the documented Beta image for that mode)
        for (mn, mx, md, sh) in [(f(0.0), f(8.0), f(2.0), f(2.0)), (f(-4.0), f(4.0), f(1.0), f(6.0)), (f(0.0), f(1.0), f(0.5), f(4.0)), (f(2.0), f(10.0), f(10.0), f(2.0)), (f(0.0), f(16.0), f(4.0), f(6.0)), (f(0.0), f(6.0), f(0.0), f(1.0))] {
            let mean = (mn + sh * md + mx) / (sh + f(2.0));
            let Ok(d) = Pert::new(mn, mx).with_shape(sh).with_mean(mean) else {
                out.push(json!({"op": "wire", "fam": "Pert(with_mean)", "ft": F::NAME, "res": "Panic: constructor rejects the mean of a valid mode", "wa": 0, "wb": 0, "finite": false, "same_class": false, "gcls": "panic",
                    "got": [0, 0, 0], "ref": [0, 0, 0], "params": [format!("{:e}", mn), format!("{:e}", mx), format!("{:e}", mean), format!("{:e}", sh)], "stream": tag}).to_string());
                continue };
            let (mut ra, mut rb) = (rng0.clone(), rng0.clone());
            let got = guarded(|| d.sample(&mut ra));
            let range = mx - mn;
            let refv = guarded(|| { let bb: F = Beta::new(F::one() + sh * (md - mn) / range, F::one() + sh * (mx - md) / range).unwrap().sample(&mut rb); mn + range * bb });
            push("Pert(with_mean)", vec![mn, mx, mean, sh], got, ra.words(), refv, rb.words(), &tag, out);
        }
        // Exp(lambda) = Exp1 / lambda
        for l in [f(1.0), f(0.37), f(250.0), f(1e-3)] {
            let Ok(d) = Exp::new(l) else { continue };
            let (mut ra, mut rb) = (rng0.clone(), rng0.clone());
            let got = guarded(|| d.sample(&mut ra));
            let refv = guarded(|| { let e: F = Exp1.sample(&mut rb); e / l });
            push("Exp", vec![l], got, ra.words(), refv, rb.words(), &tag, out);
        }
        // Gamma(1, theta) = Exp(1/theta);  Gamma(k < 1, theta) = Gamma(k + 1, theta) * U^(1/k) (U drawn first)
        for (k, th) in [(f(1.0), f(2.0)), (f(1.0), f(0.125)), (f(0.5), f(1.0)), (f(0.25), f(3.0)), (f(0.9), f(0.5))] {
            let Ok(d) = Gamma::new(k, th) else { continue };
            let (mut ra, mut rb) = (rng0.clone(), rng0.clone());
            let got = guarded(|| d.sample(&mut ra));
            let refv = if k == F::one() { guarded(|| Exp::new(F::one() / th).unwrap().sample(&mut rb)) }
                       else { guarded(|| { let u: F = Open01.sample(&mut rb); let g: F = Gamma::new(k + F::one(), th).unwrap().sample(&mut rb); g * u.powf(F::one() / k) }) };
            push(if k == F::one() { "Gamma(1)" } else { "Gamma(<1)" }, vec![k, th], got, ra.words(), refv, rb.words(), &tag, out);
        }
        // SkewNormal (Ghorbanzadeh et al., cited in the type's documentation): alpha = 0: N1; alpha = 1: max(N1, N2); alpha = -1: min(N1, N2);
        // otherwise ((1 + alpha) max + (1 - alpha) min) / sqrt(2 (1 + alpha^2)); then location + scale * z
        for (loc, sc, al) in [(f(0.0), f(1.0), f(0.0)), (f(2.0), f(3.0), f(1.0)), (f(-1.0), f(0.5), f(-1.0)), (f(0.5), f(2.0), f(4.0)), (f(0.0), f(1.0), f(-0.3))] {
            let Ok(d) = SkewNormal::new(loc, sc, al) else { continue };
            let (mut ra, mut rb) = (rng0.clone(), rng0.clone());
            let got = guarded(|| d.sample(&mut ra));
            let refv = guarded(|| {
                let n1: F = StandardNormal.sample(&mut rb);
                let z = if al == F::zero() { n1 } else {
                    let n2: F = StandardNormal.sample(&mut rb);
                    let (mx, mn) = (n1.max(n2), n1.min(n2));
                    if al == F::one() { mx } else if al == -F::one() { mn } else { ((F::one() + al) * mx + (F::one() - al) * mn) / (f(2.0) * (F::one() + al * al)).sqrt() }
                };
                loc + sc * z
            });
            push("SkewNormal", vec![loc, sc, al], got, ra.words(), refv, rb.words(), &tag, out);
        }
        // LogNormal::from_mean_cv(mean, cv): the documented relation is sigma^2 = ln(1 + cv^2), exp(mu) = mean / sqrt(1 + cv^2); the sample
        // is exp(mu + sigma z) with z the standard normal deviate of the same stream.  Reference in f64 with ln_1p (small cv included).
        for (mean, cv) in [(f(1.0), f(1.0)), (f(10.0), f(0.25)), (f(0.5), f(3.0)), (f(1000.0), f(0.001)), (f(2.0), f(1e-4)), (f(7.0), f(1e-6)), (f(1.0), f(1e-9)), (f(0.001), f(0.03125))] {
            let Ok(d) = LogNormal::from_mean_cv(mean, cv) else { continue };
            let (mut ra, mut rb) = (rng0.clone(), rng0.clone());
            let got = guarded(|| d.sample(&mut ra));
            let refv = guarded(|| {
                let z: F = StandardNormal.sample(&mut rb);
                let (m64, c64) = (mean.f64v(), cv.f64v());
                let s2 = (c64 * c64).ln_1p();
                F::of((m64.ln() - 0.5 * s2 + s2.sqrt() * z.f64v()).exp())
            });
            // (each of mu, sigma z and their sum is rounded to half an ulp of an exponent of size |ln x|, i.e. |ln x| / 2 ulps of x: judged for |ln x| <= 16)
            if refv.as_ref().map(|r| r.is_finite() && *r > F::zero() && r.f64v().ln().abs() <= 16.0).unwrap_or(true) {
                push("LogNormal(from_mean_cv)", vec![mean, cv], got, ra.words(), refv, rb.words(), &tag, out);
            }
        }
        // InverseGaussian(mu, lambda), Michael-Schucany-Haas as documented: v ~ N(0,1), y = mu v^2,
        // x = mu + mu/(2 lambda) (y - sqrt(4 lambda y + y^2)); x with probability mu / (mu + x), else mu^2 / x
        for (mu, l) in [(f(1.0), f(1.0)), (f(0.5), f(3.0)), (f(2.0), f(0.25)), (f(8.0), f(8.0)), (f(0.125), f(1.0)), (f(1000.0), f(0.001)), (f(30.0), f(0.0625)), (f(0.001), f(1000.0))] {
            let Ok(d) = InverseGaussian::new(mu, l) else { continue };
            let (mut ra, mut rb) = (rng0.clone(), rng0.clone());
            let got = guarded(|| d.sample(&mut ra));
            // the reference evaluates the smaller root in f64 and in the form mu / (sqrt(z) + sqrt(1 + z))^2, z = y / (4 lambda), which is
            // the same number without the cancelling difference; a uniform within 2^-20 (relative) of the selection threshold is not judged
            let mut edge = false;
            let refv = guarded(|| {
                let v: F = StandardNormal.sample(&mut rb);
                let (m64, l64, v64) = (mu.f64v(), l.f64v(), v.f64v());
                let z = m64 * v64 * v64 / (4.0 * l64);
                let t = z.sqrt() + (1.0 + z).sqrt();
                let x = m64 / (t * t);
                let u: F = StandardUniform.sample(&mut rb);
                let thr = m64 / (m64 + x);
                if (u.f64v() - thr).abs() <= thr * 9.5367431640625e-7 { edge = true; }
                if u.f64v() <= thr { F::of(x) } else { F::of(m64 * m64 / x) }
            });
            if !edge { push("InverseGaussian", vec![mu, l], got, ra.words(), refv, rb.words(), &tag, out); }
            // root selection, measured: for this normal draw, the uniform words that return the first root x are a prefix of the
            // word range; their number T, the two roots and mu as fixed-point integers (floor(v 2^40), base-2^14 limbs)
            let nwords = ra.words();
            if nwords >= 2 {
                let pre: Vec<u64> = { let mut r = rng0.clone(); (0..nwords - 1).map(|_| rand::Rng::next_u64(&mut r)).collect() };
                let call = |w: u64| -> Result<(F, u64), String> { let mut p = pre.clone(); p.push(w); let mut r = ScriptRng::new(p, 1); guarded(|| d.sample(&mut r)).map(|v| (v, r.words())) };
                if let (Ok((x0, w0)), Ok((x1, w1))) = (call(0), call(u64::MAX)) {
                    let (mut a, mut b) = (0u128, (1u128 << 64) - 1);     // largest w returning x0
                    while a < b { let m = a + (b - a + 1) / 2; if call(m as u64).map(|r| r.0 == x0).unwrap_or(false) { a = m; } else { b = m - 1; } }
                    let t = a + 1;
                    let l14 = |mut v: u128| -> Vec<i64> { let mut o = vec![]; loop { o.push((v & 0x3fff) as i64); v >>= 14; if v == 0 { break; } } o };
                    let q = |x: F| -> Vec<i64> { l14((x.f64v() * 1099511627776.0).floor().max(0.0) as u128) };
                    let other = mu * mu / x0;                          // the documented second root (two IEEE operations, declared)
                    let fin = x0.is_finite() && x1.is_finite() && other.is_finite() && x0 > F::zero();
                    out.push(json!({"op": "msh", "fam": "InverseGaussian", "ft": F::NAME, "res": "Ok", "finite": fin, "words_same": w0 == nwords && w1 == nwords,
                        "T": l14(t), "muq": q(mu), "xq": if fin { q(x0) } else { vec![0] }, "x1": if fin { ord_limbs(x1) } else { vec![0, 0, 0] }, "other": if fin { ord_limbs(other) } else { vec![0, 0, 0] },
                        "same_root": x0 == x1, "show": [format!("{:e}", x0), format!("{:e}", x1), format!("{:.6}", t as f64 / 18446744073709551616.0)],
                        "params": [format!("{:e}", mu), format!("{:e}", l)], "stream": tag}).to_string());
                }
            }
        }
        // NormalInverseGaussian(alpha, beta) = beta * IG + sqrt(IG) * N with IG ~ InverseGaussian(1 / gamma, 1), gamma = sqrt(alpha^2 - beta^2)
        // (gamma evaluated as alpha * sqrt(1 - (beta / alpha)^2), the overflow-free form the constructor documents)
        for (al, be) in [(f(2.0), f(1.0)), (f(1.0), f(0.0)), (f(4.0), f(-3.0)), (f(0.5), f(0.25)), (f(16.0), f(15.0))] {
            let Ok(d) = NormalInverseGaussian::new(al, be) else { continue };
            let (mut ra, mut rb) = (rng0.clone(), rng0.clone());
            let got = guarded(|| d.sample(&mut ra));
            let refv = guarded(|| {
                let r = be / al; let gamma = al * (F::one() - r * r).sqrt();
                let ig: F = InverseGaussian::new(F::one() / gamma, F::one()).unwrap().sample(&mut rb);
                let n: F = StandardNormal.sample(&mut rb);
                be * ig + ig.sqrt() * n
            });
            push("NormalInverseGaussian", vec![al, be], got, ra.words(), refv, rb.words(), &tag, out);
        }
        // Normal(0, 1) = StandardNormal
        { let d = Normal::new(F::zero(), F::one()).unwrap(); let (mut ra, mut rb) = (rng0.clone(), rng0.clone());
          let got = guarded(|| d.sample(&mut ra)); let refv = guarded(|| { let n: F = StandardNormal.sample(&mut rb); n });
          push("Normal(0,1)", vec![], got, ra.words(), refv, rb.words(), &tag, out); }
    }
}

pub fn drive(args: &[String]) -> i32 {
    let seed = arg_u64(args, "--seed", 1);
    let nrand = arg_u64(args, "--random", 40) as usize;
    let which = arg_val(args, "--prop").unwrap_or("C07".into());
    let outp = arg_val(args, "--out").unwrap();
    let mut out = vec![];
    if which == "C01" { c01::<f32>(seed, nrand, &mut out); c01::<f64>(seed + 1, nrand, &mut out); }
    else if which == "C07" { c07::<f32>(seed, nrand, &mut out); c07::<f64>(seed + 1, nrand, &mut out); }
    else { c11::<f32>(seed, nrand, &mut out); c11::<f64>(seed + 1, nrand, &mut out); }
    let mut f = std::io::BufWriter::new(std::fs::File::create(&outp).unwrap());
    for l in &out { writeln!(f, "{}", l).unwrap(); }
    println!("{}", json!({"tool": "comp-drive", "prop": which, "events": out.len()}));
    0
}
