//! Scripted / counting RNG used to bind the implementation to the model.
//!
//! The n-th word drawn (n < prefix.len()) is `prefix[n]`; afterwards words come
//! from SplitMix64(seed).  `next_u32` returns the HIGH 32 bits of the 64-bit
//! word, so that "all ones", "zero", "1<<63" mean the same for f32 and f64
//! samplers (rand builds floats from the high bits of a word).
use rand::TryRng;
use std::convert::Infallible;

#[derive(Clone, Debug, PartialEq, Eq)]
pub struct ScriptRng {
    pub prefix: Vec<u64>,
    pub pos: usize,
    pub state: u64,
    pub n32: u64,
    pub n64: u64,
    pub nbytes: u64,
}

impl ScriptRng {
    pub fn new(prefix: Vec<u64>, seed: u64) -> Self {
        ScriptRng { prefix, pos: 0, state: seed, n32: 0, n64: 0, nbytes: 0 }
    }
    pub fn seeded(seed: u64) -> Self {
        Self::new(Vec::new(), seed)
    }
    /// A random stream in which word number `at` is `word`.
    pub fn adversarial(seed: u64, at: usize, word: u64) -> Self {
        let mut r = Self::seeded(seed);
        let mut prefix = Vec::with_capacity(at + 1);
        for _ in 0..at {
            prefix.push(r.splitmix());
        }
        prefix.push(word);
        // the tail continues the same SplitMix stream
        ScriptRng { prefix, pos: 0, state: r.state, n32: 0, n64: 0, nbytes: 0 }
    }
    #[inline]
    fn splitmix(&mut self) -> u64 {
        self.state = self.state.wrapping_add(0x9E37_79B9_7F4A_7C15);
        let mut z = self.state;
        z = (z ^ (z >> 30)).wrapping_mul(0xBF58_476D_1CE4_E5B9);
        z = (z ^ (z >> 27)).wrapping_mul(0x94D0_49BB_1331_11EB);
        z ^ (z >> 31)
    }
    #[inline]
    fn word(&mut self) -> u64 {
        if self.pos < self.prefix.len() {
            let w = self.prefix[self.pos];
            self.pos += 1;
            w
        } else {
            self.pos += 1;
            self.splitmix()
        }
    }
    /// words drawn so far (u32 and u64 draws both count as one word)
    pub fn words(&self) -> u64 {
        self.n32 + self.n64
    }
    /// identity of the RNG state, for the object model (C14): position in the stream
    pub fn state_id(&self) -> (u64, u64) {
        (self.pos as u64, self.state)
    }
}

impl TryRng for ScriptRng {
    type Error = Infallible;
    #[inline]
    fn try_next_u32(&mut self) -> Result<u32, Infallible> {
        self.n32 += 1;
        Ok((self.word() >> 32) as u32)
    }
    #[inline]
    fn try_next_u64(&mut self) -> Result<u64, Infallible> {
        self.n64 += 1;
        Ok(self.word())
    }
    fn try_fill_bytes(&mut self, dst: &mut [u8]) -> Result<(), Infallible> {
        for chunk in dst.chunks_mut(8) {
            self.nbytes += chunk.len() as u64;
            let w = self.word().to_le_bytes();
            chunk.copy_from_slice(&w[..chunk.len()]);
        }
        Ok(())
    }
}

/// plain SplitMix64 for harness-side random choices (driving only)
pub struct Sm(pub u64);
impl Sm {
    pub fn next(&mut self) -> u64 {
        self.0 = self.0.wrapping_add(0x9E37_79B9_7F4A_7C15);
        let mut z = self.0;
        z = (z ^ (z >> 30)).wrapping_mul(0xBF58_476D_1CE4_E5B9);
        z = (z ^ (z >> 27)).wrapping_mul(0x94D0_49BB_1331_11EB);
        z ^ (z >> 31)
    }
    pub fn below(&mut self, n: u64) -> u64 {
        if n == 0 { 0 } else { self.next() % n }
    }
    pub fn pick<'a, T>(&mut self, xs: &'a [T]) -> &'a T {
        &xs[self.below(xs.len() as u64) as usize]
    }
}
