//! Binding of spec/WeightedTree.tla to rand_distr::weighted::WeightedTreeIndex (C09, C10).
//!  * `tree-replay`: TLC-generated behaviours (TreeGen.tla) are executed on the real
//!    type for every weight type and compared after every step with the observations
//!    the specification predicts; in every replayed state all sampling targets are swept.
//!  * `tree-drive`: long random histories on the real type are recorded as ndjson for
//!    validation against TraceTree.tla.
use crate::rng::{ScriptRng, Sm};
use crate::tw::*;
use crate::util::*;
use rand::RngExt;
use rand_distr::weighted::{Error as WErr, WeightedTreeIndex};
use serde_json::{json, Value};
use std::io::{BufRead, Write};

fn err_name(e: &WErr) -> &'static str {
    match e {
        WErr::InvalidInput => "InvalidInput",
        WErr::InvalidWeight => "InvalidWeight",
        WErr::InsufficientNonZero => "InsufficientNonZero",
        WErr::Overflow => "Overflow",
        _ => "OtherError",
    }
}

/// words that make `random_range(W::ZERO..total)` hit each integer target once
/// (ints), or land at t + 0.5 (floats).  Returns the scripted prefix per target.
pub fn sweep_words<W: TW>(total: u128) -> Vec<Vec<u64>> {
    let mut out = Vec::with_capacity(total as usize);
    for k in 0..total {
        if W::IS_FLOAT {
            let bits = W::SAMPLE_BITS; // 23 or 52
            let j = (((k as f64 + 0.5) / total as f64) * (1u64 << bits) as f64).floor() as u64;
            let w = if bits == 23 { (j << 9) << 32 } else { j << 12 };
            out.push(vec![w]);
        } else {
            match W::SAMPLE_BITS {
                32 => {
                    let w = ((k << 32) + total - 1) / total; // ceil(k 2^32 / T)
                    out.push(vec![(w as u64) << 32]);
                }
                64 => {
                    let w = ((k << 64) + total - 1) / total;
                    out.push(vec![w as u64]);
                }
                _ => {
                    let mut q = u128::MAX / total;
                    let mut r = u128::MAX % total + 1;
                    if r == total { q = q.wrapping_add(1); r = 0; }
                    let w = k.wrapping_mul(q) + (k * r + total - 1) / total;
                    out.push(vec![w as u64, (w >> 64) as u64]);
                }
            }
        }
    }
    out
}

pub struct SweepResult {
    pub counts: Vec<u64>,
    pub panics: Vec<(u128, String)>,
    pub errs: u64,
    pub words_bad: u64,
    pub mirror_bad: u64,
}

/// Sweep every target of a valid tree with small total.
pub fn sweep_tree<W: TW>(tree: &WeightedTreeIndex<W>, total: u128, total_w: W) -> SweepResult {
    let n = tree.len();
    let mut r = SweepResult { counts: vec![0; n], panics: vec![], errs: 0, words_bad: 0, mirror_bad: 0 };
    for (k, pre) in sweep_words::<W>(total).into_iter().enumerate() {
        let nwords = pre.len() as u64;
        // rand's own word -> target map, measured on a clone of the stream (self-test of the driver)
        let mut probe = ScriptRng::new(pre.clone(), 1);
        let t_obs: W = probe.random_range(W::ZERO..total_w);
        let t_obs_i = if W::IS_FLOAT { t_obs.as_f64().floor() as u128 } else { t_obs.to_model(i64::MAX) as u128 };
        if t_obs_i != k as u128 || probe.words() != nwords { r.mirror_bad += 1; continue; }
        let mut rng = ScriptRng::new(pre, 1);
        match guarded(|| tree.try_sample(&mut rng)) {
            Ok(Ok(i)) => {
                if rng.words() != nwords { r.words_bad += 1; }
                if i < n { r.counts[i] += 1; } else { r.panics.push((k as u128, format!("index {} out of range", i))); }
            }
            Ok(Err(_)) => r.errs += 1,
            Err(p) => r.panics.push((k as u128, p)),
        }
    }
    r
}

#[derive(Default)]
pub struct ReplayStats {
    pub behaviours: u64,
    pub runs: u64,
    pub steps: u64,
    pub skipped: u64,
    pub sweeps: u64,
    pub sweep_targets: u64,
    pub mismatches: Vec<Value>,
    pub nmismatch: u64,
    pub tool_errors: Vec<String>,
    pub sigs: std::collections::BTreeMap<String, u64>,
}

fn record(st: &mut ReplayStats, ty: &str, prop: &str, beh: &Value, step: usize, what: &str, got: String, want: String) {
    st.nmismatch += 1;
    let c = st.sigs.entry(format!("{}:{}:{}", prop, ty, what.split('(').next().unwrap_or(what))).or_default();
    *c += 1;
    if *c <= 3 && st.mismatches.len() < 40 {
        st.mismatches.push(json!({"property": prop, "type": ty, "step": step, "what": what, "got": got, "want": want, "behaviour": beh}));
    }
}

fn vec_i64(v: &Value) -> Vec<i64> {
    v.as_array().map(|a| a.iter().map(|x| x.as_i64().unwrap()).collect()).unwrap_or_default()
}

fn replay_one<W: TW>(beh: &Value, m: i64, st: &mut ReplayStats, do_sweep: bool, c10_mode: bool) {
    let steps = beh.as_array().unwrap();
    // is every argument representable in W under the embedding?
    for s in steps {
        let op = s["op"].as_str().unwrap();
        let ok = match op {
            "new" => vec_i64(&s["l"]).iter().all(|&v| W::from_model(v, m).is_some()),
            "push" | "update" => W::from_model(s["w"].as_i64().unwrap(), m).is_some(),
            _ => true,
        };
        if !ok { st.skipped += 1; return; }
    }
    st.runs += 1;
    let ty = W::NAME;
    let mut tree: WeightedTreeIndex<W> = WeightedTreeIndex::<W>::new(Vec::<W>::new()).unwrap();
    for (k, s) in steps.iter().enumerate() {
        st.steps += 1;
        let op = s["op"].as_str().unwrap();
        let want_res = s["res"].as_str().unwrap();
        let want_ret = s["ret"].as_i64().unwrap();
        let want_ws = vec_i64(&s["ws"]);
        let mut got_ret: i64 = -1;
        let outcome: Result<String, String> = match op {
            "new" => {
                let l: Vec<W> = vec_i64(&s["l"]).iter().map(|&v| W::from_model(v, m).unwrap()).collect();
                guarded(|| WeightedTreeIndex::<W>::new(l.iter())).map(|r| match r {
                    Ok(t) => { tree = t; "Ok".to_string() }
                    Err(e) => err_name(&e).to_string(),
                })
            }
            "push" => {
                let w = W::from_model(s["w"].as_i64().unwrap(), m).unwrap();
                guarded(|| tree.push(w)).map(|r| match r { Ok(()) => "Ok".into(), Err(e) => err_name(&e).to_string() })
            }
            "pop" => guarded(|| tree.pop()).map(|r| match r {
                Some(w) => { got_ret = w.to_model(m); "Ok".into() }
                None => "None".into(),
            }),
            "update" => {
                let w = W::from_model(s["w"].as_i64().unwrap(), m).unwrap();
                let i = s["i"].as_u64().unwrap() as usize;
                guarded(|| tree.update(i, w)).map(|r| match r { Ok(()) => "Ok".into(), Err(e) => err_name(&e).to_string() })
            }
            _ => { st.tool_errors.push(format!("unknown op {}", op)); return; }
        };
        match outcome {
            Err(p) => { record(st, ty, "C09", beh, k, "panic", p, want_res.to_string()); return; }
            Ok(r) => {
                if r != want_res { record(st, ty, "C09", beh, k, "result", r.clone(), want_res.to_string()); if !c10_mode || r == "Ok" || want_res == "Ok" { return; } }
            }
        }
        if got_ret != want_ret { record(st, ty, "C09", beh, k, "pop value", got_ret.to_string(), want_ret.to_string()); if !c10_mode { return; } }
        // observers
        if tree.len() != want_ws.len() { record(st, ty, "C09", beh, k, "len", tree.len().to_string(), want_ws.len().to_string()); if !c10_mode { return; } }
        let want_valid = s["valid"].as_bool().unwrap();
        if !c10_mode {
        if tree.is_empty() != want_ws.is_empty() { record(st, ty, "C09", beh, k, "is_empty", tree.is_empty().to_string(), want_ws.is_empty().to_string()); return; }
        if tree.is_valid() != want_valid { record(st, ty, "C09", beh, k, "is_valid", tree.is_valid().to_string(), want_valid.to_string()); return; }
        for (i, &wv) in want_ws.iter().enumerate() {
            match guarded(|| tree.get(i)) {
                Ok(g) => { if g.to_model(m) != wv { record(st, ty, "C09", beh, k, &format!("get({})", i), format!("{:?}", g), wv.to_string()); return; } }
                Err(p) => { record(st, ty, "C09", beh, k, &format!("get({}) panic", i), p, wv.to_string()); return; }
            }
        }
        // == fresh build of the list (exact types; floats with small integers are exact too)
        let fresh_l: Vec<W> = want_ws.iter().map(|&v| W::from_model(v, m).unwrap()).collect();
        match WeightedTreeIndex::<W>::new(fresh_l.iter()) {
            Ok(fresh) => { if fresh != tree { record(st, ty, "C09", beh, k, "== new(list)", format!("{:?}", tree), format!("{:?}", fresh)); return; } }
            Err(e) => { record(st, ty, "C09", beh, k, "new(list) of a reachable list fails", err_name(&e).to_string(), "Ok".into()); return; }
        }
        } // end of C09 observers (skipped in C10 mode: sampling is judged against the list the calls describe)
        // C10: sweep all targets of this state
        if do_sweep {
            let total_model: i64 = want_ws.iter().sum();
            if !want_valid {
                let mut rng = ScriptRng::seeded(7);
                match guarded(|| tree.try_sample(&mut rng)) {
                    Ok(Err(WErr::InsufficientNonZero)) => {}
                    Ok(o) => { record(st, ty, "C10", beh, k, "try_sample on empty/zero tree", format!("{:?}", o), "Err(InsufficientNonZero)".into()); return; }
                    Err(p) => { record(st, ty, "C10", beh, k, "try_sample panic on empty/zero tree", p, "Err(InsufficientNonZero)".into()); return; }
                }
            } else if want_ws.iter().all(|&v| v <= m / 2 || (W::max_i128() == m as i128)) && total_model <= 4096 {
                let total_w: W = {
                    // root total through the public API: sum of gets would re-derive it; use from_u64
                    W::from_u64(total_model as u64)
                };
                let r = sweep_tree(&tree, total_model as u128, total_w);
                st.sweeps += 1;
                st.sweep_targets += total_model as u64;
                if r.mirror_bad > 0 { st.tool_errors.push(format!("rand mirror mismatch for {} total {}", ty, total_model)); return; }
                if let Some((t, p)) = r.panics.first() { record(st, ty, "C10", beh, k, &format!("try_sample panic at target {}", t), p.clone(), "index".into()); return; }
                if r.errs > 0 { record(st, ty, "C10", beh, k, "try_sample error on valid tree", r.errs.to_string(), "0".into()); return; }
                if r.words_bad == 0 {
                    let want: Vec<u64> = want_ws.iter().map(|&v| v as u64).collect();
                    if r.counts != want { record(st, ty, "C10", beh, k, "ticket counts", format!("{:?}", r.counts), format!("{:?}", want)); return; }
                } else {
                    // outside the modelled one-draw regime: only the zero-weight rule is judged
                    for (i, &c) in r.counts.iter().enumerate() {
                        if c > 0 && want_ws.get(i).copied().unwrap_or(0) == 0 { record(st, ty, "C10", beh, k, "zero-weight index returned", i.to_string(), "never".into()); return; }
                    }
                }
            }
        }
    }
}

pub fn replay(args: &[String]) -> i32 {
    let m = arg_i64(args, "--m", 255);
    let do_sweep = !args.iter().any(|a| a == "--no-sweep");
    let only = arg_val(args, "--only");
    let c10_mode = arg_val(args, "--prop").as_deref() == Some("C10");
    let pass = arg_val(args, "--passthrough");
    let mut passf = pass.map(|p| std::fs::File::create(p).unwrap());
    let mut st = ReplayStats::default();
    let stdin = std::io::stdin();
    let mut sample: Option<Value> = None;
    for line in stdin.lock().lines() {
        let line = match line { Ok(l) => l, Err(_) => break };
        let payload = if line.starts_with('[') { Some(line.clone()) } else { tlc_payload(&line, "REPLAY") };
        let Some(p) = payload else {
            if let Some(f) = passf.as_mut() { let _ = writeln!(f, "{}", line); }
            continue;
        };
        let beh: Value = match serde_json::from_str(&p) { Ok(v) => v, Err(e) => { st.tool_errors.push(format!("json: {}", e)); continue; } };
        st.behaviours += 1;
        if sample.is_none() || st.behaviours % 9973 == 0 { sample = Some(beh.clone()); }
        macro_rules! go { ($W:ident) => {
            if only.as_deref().map(|o| o == <$W as TW>::NAME).unwrap_or(true) { replay_one::<$W>(&beh, m, &mut st, do_sweep, c10_mode); }
        } }
        crate::for_each_tw!(W, { go!(W); });
    }
    let out = json!({
        "tool": "tree-replay", "m": m, "behaviours": st.behaviours, "runs": st.runs, "steps": st.steps,
        "skipped_unrepresentable": st.skipped, "sweeps": st.sweeps, "sweep_targets": st.sweep_targets,
        "mismatch_count": st.nmismatch, "mismatch_sigs": st.sigs, "mismatches": st.mismatches, "tool_errors": st.tool_errors,
        "sample": sample,
    });
    println!("{}", out);
    0
}

// ---------------------------------------------------------------------------
// impl -> spec: random histories recorded for TraceTree.tla

/// values outside both scales of the embedding cannot be logged in 32 bits
fn cl(v: i64) -> i64 { if v == UNMAPPABLE { -98 } else { v } }

struct Drv<W: TW> { tree: WeightedTreeIndex<W>, m: i64, out: Vec<String> }

impl<W: TW> Drv<W> {
    fn proj(&self, touched: &[usize], rnd: &mut Sm) -> (Vec<u64>, Vec<i64>) {
        let n = self.tree.len();
        let mut idx: Vec<usize> = vec![];
        for &t in touched {
            let mut i = t;
            loop { if i < n && !idx.contains(&i) { idx.push(i); } if i == 0 { break; } i = (i - 1) / 2; }
        }
        for _ in 0..4 { if n > 0 { let i = rnd.below(n as u64) as usize; if !idx.contains(&i) { idx.push(i); } } }
        if n > 0 && !idx.contains(&(n - 1)) { idx.push(n - 1); }
        let m = self.m;
        let vals = idx.iter().map(|&i| match guarded(|| self.tree.get(i)) { Ok(g) => cl(g.to_model(m)), Err(_) => -99 }).collect();
        (idx.iter().map(|&i| i as u64).collect(), vals)
    }
    fn total_model(&self) -> i64 {
        // the root total is not public; it is the sum of all weights (by get)
        // -- logged only as is_valid, the spec checks the rest through gets
        0
    }
    fn emit(&mut self, op: &str, i: i64, w: i64, l: &[i64], res: &str, ret: i64, touched: &[usize], rnd: &mut Sm) {
        let (gi, gv) = self.proj(touched, rnd);
        let _ = self.total_model();
        self.out.push(json!({"op": op, "i": i, "w": w, "l": l, "res": res, "ret": ret,
            "len": self.tree.len(), "valid": self.tree.is_valid(), "gi": gi, "gv": gv}).to_string());
    }
}

fn drive_one<W: TW>(m: i64, seed: u64, nops: usize, maxlen: usize, small_max: i64, near: i64, out: &mut Vec<String>) {
    let mut rnd = Sm(seed ^ 0xabcdef);
    let mut d: Drv<W> = Drv { tree: WeightedTreeIndex::<W>::new(Vec::<W>::new()).unwrap(), m, out: vec![] };
    let identity = W::max_i128() == m as i128;
    // weight alphabet in model scale
    let gen_w = |rnd: &mut Sm| -> i64 {
        let c = rnd.below(100);
        if c < 4 { NEG } else if c < 6 { NAN }
        else if c < 30 { 0 }
        else if c < 90 { rnd.below(small_max as u64 + 1) as i64 }
        else if W::IS_FLOAT { rnd.below(small_max as u64 + 1) as i64 }
        else if identity { rnd.below(m as u64 + 1) as i64 }
        else { m - rnd.below(near as u64 + 1) as i64 }
    };
    // start with new([]) (always Ok) so that each type's history starts from the spec's initial tree
    d.emit("new", -1, -1, &[], "Ok", -1, &[], &mut rnd);
    let mut first = true;
    for _ in 0..nops {
        let n = d.tree.len();
        let c = if first { 0 } else { rnd.below(100) };
        first = false;
        if c < 3 {
            let len = rnd.below(8) as usize;
            let l: Vec<i64> = (0..len).map(|_| gen_w(&mut rnd)).collect();
            if !l.iter().all(|&v| W::from_model(v, m).is_some()) { continue; }
            let lw: Vec<W> = l.iter().map(|&v| W::from_model(v, m).unwrap()).collect();
            let r = guarded(|| WeightedTreeIndex::<W>::new(lw.iter()));
            let res = match r { Ok(Ok(t)) => { d.tree = t; "Ok".to_string() } Ok(Err(e)) => err_name(&e).to_string(), Err(_) => "Panic".to_string() };
            d.emit("new", -1, -1, &l, &res, -1, &[], &mut rnd);
        } else if c < 45 || n == 0 {
            if n >= maxlen { continue; }
            let w = gen_w(&mut rnd);
            let Some(wv) = W::from_model(w, m) else { continue };
            let res = match guarded(|| d.tree.push(wv)) { Ok(Ok(())) => "Ok".to_string(), Ok(Err(e)) => err_name(&e).to_string(), Err(_) => "Panic".into() };
            let t = d.tree.len().saturating_sub(1);
            d.emit("push", -1, w, &[], &res, -1, &[t], &mut rnd);
        } else if c < 65 {
            let t = d.tree.len().saturating_sub(1);
            let (res, ret) = match guarded(|| d.tree.pop()) { Ok(Some(w)) => ("Ok".to_string(), cl(w.to_model(m))), Ok(None) => ("None".into(), -1), Err(_) => ("Panic".into(), -1) };
            d.emit("pop", -1, -1, &[], &res, ret, &[t], &mut rnd);
        } else if c < 90 {
            let i = rnd.below(n as u64) as usize;
            let w = gen_w(&mut rnd);
            let Some(wv) = W::from_model(w, m) else { continue };
            let res = match guarded(|| d.tree.update(i, wv)) { Ok(Ok(())) => "Ok".to_string(), Ok(Err(e)) => err_name(&e).to_string(), Err(_) => "Panic".into() };
            d.emit("update", i as i64, w, &[], &res, -1, &[i], &mut rnd);
        } else {
            // sample event: scripted first word(s); the target is measured with rand's own
            // random_range on a clone of the stream (driving information), the index is the observation
            let words: Vec<u64> = match rnd.below(4) { 0 => vec![0, 0], 1 => vec![u64::MAX, 0], 2 => vec![rnd.next(), 0], _ => vec![rnd.next() | (u64::MAX << 40), 0] };
            let mut rng = ScriptRng::new(words.clone(), 3);
            let r = guarded(|| d.tree.try_sample(&mut rng));
            let (res, idx) = match r { Ok(Ok(i)) => ("Ok".to_string(), i as i64), Ok(Err(e)) => (err_name(&e).to_string(), -1), Err(p) => (format!("Panic: {}", p), -1) };
            // target in model scale (only meaningful if the tree is valid)
            let mut t: i64 = -1;
            if d.tree.is_valid() {
                // total through get-sum is O(n); use a probe tree-independent route: random_range needs total.
                // The total equals get-sum; compute it once here.
                let tot: Option<W> = guarded(|| {
                    let mut tot: Option<W> = None;
                    for i in 0..d.tree.len() { let g = d.tree.get(i); tot = Some(match tot { None => g, Some(mut a) => { let _ = a.checked_add_assign(&g); a } }); }
                    tot
                }).unwrap_or(None);
                if let Some(tw) = tot {
                    let mut probe = ScriptRng::new(words, 3);
                    if let Ok(tt) = guarded(|| probe.random_range(W::ZERO..tw)) {
                        t = if W::IS_FLOAT { tt.as_f64().floor() as i64 } else { tt.to_model(m) };
                        if t == UNMAPPABLE { t = -1; }
                    }
                }
            }
            d.out.push(json!({"op": "sample", "i": idx, "w": t, "l": [], "res": res, "ret": -1,
                "len": d.tree.len(), "valid": d.tree.is_valid(), "gi": [], "gv": []}).to_string());
        }
    }
    out.append(&mut d.out);
}

/// Float weights that are not small integers: the integer model does not apply, the
/// property still promises (C10/C03): valid tree => try_sample returns Ok(i), i < len,
/// weight(i) > 0, no panic - also for the largest possible target.
fn drive_float<F: TW + num_traits::Float>(seed: u64, ntrees: usize, out: &mut Vec<String>, bits: fn(F) -> String) {
    let mut rnd = Sm(seed ^ 0x5151);
    for _ in 0..ntrees {
        let n = 1 + rnd.below(12) as usize;
        let shape = rnd.below(4);
        let mut ws: Vec<F> = (0..n).map(|k| {
            let e = match shape {
                0 => -10.0 + 12.0 * (rnd.below(1 << 20) as f64 / (1u64 << 20) as f64),
                1 => if k == n - 1 { 1.0 } else { -9.0 + 2.0 * (rnd.below(1 << 20) as f64 / (1u64 << 20) as f64) },
                2 => 0.0 + (rnd.below(1 << 20) as f64 / (1u64 << 20) as f64),
                _ => -3.0 + 6.0 * (rnd.below(1 << 20) as f64 / (1u64 << 20) as f64),
            };
            let mant = 1.0 + (rnd.below(1 << 30) as f64 / (1u64 << 30) as f64);
            F::from(mant * 10f64.powf(e)).unwrap()
        }).collect();
        if rnd.below(5) == 0 { let k = rnd.below(n as u64) as usize; ws[k] = F::zero(); }
        let Ok(Ok(mut tree)) = guarded(|| WeightedTreeIndex::<F>::new(ws.iter())) else { continue };
        // a short update history, so that states after updates are covered too
        let hist = rnd.below(4);
        for _ in 0..hist {
            match rnd.below(3) {
                0 => { let w = ws[rnd.below(ws.len() as u64) as usize]; if guarded(|| tree.push(w).is_ok()).unwrap_or(false) { ws.push(w); } }
                1 => { if ws.len() > 1 { let _ = guarded(|| tree.pop()); ws.pop(); } }
                _ => { let i = rnd.below(ws.len() as u64) as usize; let w = ws[rnd.below(ws.len() as u64) as usize]; if guarded(|| tree.update(i, w).is_ok()).unwrap_or(false) { ws[i] = w; } }
            }
        }
        let classes: [(&str, u64); 5] = [("ones", u64::MAX), ("zero", 0), ("top", u64::MAX << (12 + rnd.below(8))), ("half", 1 << 63), ("rand", rnd.next())];
        for (wc, word) in classes {
            let mut rng = ScriptRng::new(vec![word], 11);
            let valid = guarded(|| tree.is_valid()).unwrap_or(false);
            let r = guarded(|| tree.try_sample(&mut rng));
            let (res, idx) = match r { Ok(Ok(i)) => ("Ok".to_string(), i as i64), Ok(Err(e)) => (err_name(&e).to_string(), -1), Err(p) => (format!("Panic: {}", p), -1) };
            let wpos = idx >= 0 && (idx as usize) < tree.len() && guarded(|| tree.get(idx as usize) > F::zero()).unwrap_or(false);
            let cur: Vec<String> = guarded(|| (0..tree.len()).map(|i| bits(tree.get(i))).collect()).unwrap_or_default();
            out.push(json!({"op": "fsample", "ty": F::NAME, "wc": wc, "res": res, "i": idx, "len": tree.len(),
                "valid": valid, "wpos": wpos, "allzero": guarded(|| (0..tree.len()).all(|i| tree.get(i) == F::zero())).unwrap_or(false), "words": rng.words(), "word": format!("{:#018x}", word),
                "built_from": ws.iter().map(|&w| bits(w)).collect::<Vec<_>>(), "weights_now": cur, "hist": hist}).to_string());
        }
    }
}

pub fn drive_floats(args: &[String]) -> i32 {
    let seed = arg_u64(args, "--seed", 1);
    let ntrees = arg_u64(args, "--trees", 5000) as usize;
    let outp = arg_val(args, "--out").unwrap();
    let mut out = vec![];
    drive_float::<f32>(seed, ntrees, &mut out, |x| format!("{:e}/{:#010x}", x, x.to_bits()));
    drive_float::<f64>(seed + 1, ntrees, &mut out, |x| format!("{:e}/{:#018x}", x, x.to_bits()));
    let mut f = std::io::BufWriter::new(std::fs::File::create(&outp).unwrap());
    for l in &out { writeln!(f, "{}", l).unwrap(); }
    println!("{}", json!({"tool": "tree-drive-floats", "events": out.len()}));
    0
}

pub fn drive(args: &[String]) -> i32 {
    let m = arg_i64(args, "--m", 255);
    let seed = arg_u64(args, "--seed", 1);
    let nops = arg_u64(args, "--ops", 2000) as usize;
    let maxlen = arg_u64(args, "--maxlen", 40) as usize;
    let small = arg_i64(args, "--small", 3);
    let near = arg_i64(args, "--near", 6);
    let types = arg_val(args, "--types").unwrap_or_default();
    let outp = arg_val(args, "--out").unwrap();
    let mut out: Vec<String> = vec![];
    let mut k = 0u64;
    macro_rules! go { ($W:ident) => {
        if types.split(',').any(|t| t == <$W as TW>::NAME) {
            k += 1;
            drive_one::<$W>(m, seed.wrapping_mul(31).wrapping_add(k), nops, maxlen, small, near, &mut out);
        }
    } }
    crate::for_each_tw!(W, { go!(W); });
    let mut f = std::io::BufWriter::new(std::fs::File::create(&outp).unwrap());
    for l in &out { writeln!(f, "{}", l).unwrap(); }
    println!("{}", json!({"tool": "tree-drive", "m": m, "events": out.len(), "types": types}));
    0
}
