//! C12: unit-geometry samplers on the dyadic lattice x = k/16 (scripted words) and on random /
//! single-word-adversarial streams; judged by TraceGeom.tla.
use crate::fl::*;
use crate::rng::{ScriptRng, Sm};
use crate::sup::lattice;
use crate::util::*;
use rand_distr::{Distribution, UnitBall, UnitCircle, UnitDisc, UnitSphere};
use serde_json::{json, Value};
use std::io::Write;

fn word_for<F: Fx>(k: i64) -> u64 { word_den::<F>(k, 16) }
/// Uniform(-1, 1): value0_1 * 2 - 1 with value0_1 = j / 2^MANT;  x = k/den  <=>  value0_1 = (k + den)/(2 den)
fn word_den<F: Fx>(k: i64, den: i64) -> u64 {
    let sh = if den == 16 { 5 } else { 7 };       // 2*den = 2^sh
    if F::NAME == "f32" { ((((k + den) as u64) << (23 - sh)) << 9) << 32 } else { (((k + den) as u64) << (52 - sh)) << 12 }
}

fn sample_kind<F: Fx>(kind: &str, rng: &mut ScriptRng) -> Result<Vec<F>, String>
where UnitCircle: Distribution<[F; 2]>, UnitDisc: Distribution<[F; 2]>, UnitSphere: Distribution<[F; 3]>, UnitBall: Distribution<[F; 3]> {
    guarded(|| match kind {
        "circle" => { let v: [F; 2] = UnitCircle.sample(rng); v.to_vec() }
        "disc" => { let v: [F; 2] = UnitDisc.sample(rng); v.to_vec() }
        "sphere" => { let v: [F; 3] = UnitSphere.sample(rng); v.to_vec() }
        _ => { let v: [F; 3] = UnitBall.sample(rng); v.to_vec() }
    })
}

fn lat<F: Fx>(out: &mut Vec<String>)
where UnitCircle: Distribution<[F; 2]>, UnitDisc: Distribution<[F; 2]>, UnitSphere: Distribution<[F; 3]>, UnitBall: Distribution<[F; 3]> {
    for kind in ["disc", "circle", "sphere", "ball"] {
        let dim = if kind == "ball" { 3 } else { 2 };
        let n = 32i64.pow(dim as u32);
        for idx in 0..n {
            let ks: Vec<i64> = (0..dim).map(|d| (idx / 32i64.pow(d as u32)) % 32 - 16).collect();
            let words: Vec<u64> = ks.iter().map(|&k| word_for::<F>(k)).collect();
            let mut rng = ScriptRng::new(words, 17);
            let r = sample_kind::<F>(kind, &mut rng);
            let acc = rng.words() == dim as u64;
            let mut ev = json!({"op": "lat", "kind": kind, "ft": F::NAME, "k": ks, "words": rng.words(), "acc": acc});
            match r {
                Err(p) => { ev["res"] = json!(format!("Panic: {}", p)); }
                Ok(v) => {
                    ev["res"] = json!("Ok");
                    let f = |x: F, sc: f64| -> i64 { let y = x.f64v() * sc; if y.is_finite() && y.abs() < 2.0e9 { y.floor() as i64 } else { 0 } };
                    ev["finite"] = json!(v.iter().all(|x| x.is_finite()));
                    match kind {
                        "disc" | "ball" => { ev["q"] = json!(v.iter().map(|&x| f(x, 65536.0)).collect::<Vec<_>>()); }
                        "circle" => { ev["q"] = json!(v.iter().map(|&x| f(x, 1048576.0)).collect::<Vec<_>>()); }
                        _ => {
                            ev["m"] = json!(v[..2].iter().map(|&x| f(x.abs(), 4096.0)).collect::<Vec<_>>());
                            ev["sg"] = json!(v[..2].iter().map(|&x| if x > F::zero() { 1 } else if x < F::zero() { -1 } else { 0 }).collect::<Vec<_>>());
                            let t = v[2].f64v() * 256.0;
                            ev["q3"] = json!(if t.fract() == 0.0 { t as i64 } else { -999_999 });
                        }
                    }
                }
            }
            out.push(ev.to_string());
        }
    }
}

/// second-iteration proposals (first iteration: the rejected corner (15,15[,15])/16) and the finer lattice k/64
fn lat_more<F: Fx>(seed: u64, out: &mut Vec<String>)
where UnitCircle: Distribution<[F; 2]>, UnitDisc: Distribution<[F; 2]>, UnitSphere: Distribution<[F; 3]>, UnitBall: Distribution<[F; 3]> {
    let mut rnd = Sm(seed);
    let q = |x: F, sc: f64| -> i64 { let y = x.f64v() * sc; if y.is_finite() && y.abs() < 2.0e9 { y.floor() as i64 } else { 0 } };
    for kind in ["disc", "circle", "sphere", "ball"] {
        let dim = if kind == "ball" { 3usize } else { 2 };
        // lat2: r rejected corner proposals (r = 1 for the full coarse lattice, r up to 40 for a few proposals), then the lattice proposal
        let n = 16i64.pow(dim as u32);
        let mut plan: Vec<(i64, usize)> = (0..n).map(|i| (i, 1usize)).collect();
        for r in [2usize, 3, 5, 7, 8, 9, 12, 16, 25, 40] { for i in [0i64, n / 3 + 1, n / 2 + 3, n - 2] { plan.push((i, r)); } }
        for (idx, nrej) in plan {
            let ks: Vec<i64> = (0..dim).map(|d| ((idx / 16i64.pow(d as u32)) % 16) * 2 - 16 + (idx % 2)).collect();
            let mut words: Vec<u64> = vec![];
            for j in 0..nrej { for d in 0..dim { words.push(word_for::<F>(if (j + d) % 2 == 0 { 15 } else { -16 })); } }    // corners (+-15/16 resp. -1): rejected
            words.extend(ks.iter().map(|&k| word_for::<F>(k)));
            let mut rng = ScriptRng::new(words, 23);
            let r = sample_kind::<F>(kind, &mut rng);
            let acc = rng.words() == ((nrej + 1) * dim) as u64;
            let mut ev = json!({"op": "lat2", "kind": kind, "ft": F::NAME, "k": ks, "words": rng.words(), "acc": acc});
            match r { Err(p) => { ev["res"] = json!(format!("Panic: {}", p)); }
                Ok(v) => { ev["res"] = json!("Ok"); ev["finite"] = json!(v.iter().all(|x| x.is_finite()));
                    match kind {
                        "disc" | "ball" => { ev["q"] = json!(v.iter().map(|&x| q(x, 65536.0)).collect::<Vec<_>>()); }
                        "circle" => { ev["q"] = json!(v.iter().map(|&x| q(x, 1048576.0)).collect::<Vec<_>>()); }
                        _ => { ev["m"] = json!(v[..2].iter().map(|&x| q(x.abs(), 4096.0)).collect::<Vec<_>>());
                               ev["sg"] = json!(v[..2].iter().map(|&x| if x > F::zero() { 1 } else if x < F::zero() { -1 } else { 0 }).collect::<Vec<_>>());
                               let t = v[2].f64v() * 256.0; ev["q3"] = json!(if t.fract() == 0.0 { t as i64 } else { -999_999 }); }
                    } } }
            out.push(ev.to_string());
        }
        // fine lattice k/64: all points for the 2-d samplers; for the ball the shell 0.85 < |x|^2 <= 1.1 plus a random tenth
        let m = 128i64.pow(dim as u32);
        for idx in 0..m {
            let ks: Vec<i64> = (0..dim).map(|d| (idx / 128i64.pow(d as u32)) % 128 - 64).collect();
            if dim == 3 { let s: i64 = ks.iter().map(|k| k * k).sum(); if !((s > 3481 && s <= 4505) || rnd.below(10) == 0) { continue; } }
            let words: Vec<u64> = ks.iter().map(|&k| word_den::<F>(k, 64)).collect();
            let mut rng = ScriptRng::new(words, 29);
            let r = sample_kind::<F>(kind, &mut rng);
            let acc = rng.words() == dim as u64;
            let mut ev = json!({"op": "fine", "kind": kind, "ft": F::NAME, "k": ks, "words": rng.words(), "acc": acc});
            match r { Err(p) => { ev["res"] = json!(format!("Panic: {}", p)); }
                Ok(v) => { ev["res"] = json!("Ok"); ev["finite"] = json!(v.iter().all(|x| x.is_finite())); if kind == "disc" || kind == "ball" { ev["q"] = json!(v.iter().map(|&x| q(x, 65536.0)).collect::<Vec<_>>()); } } }
            out.push(ev.to_string());
        }
    }
}

fn rand_ev<F: Fx>(kind: &str, rng: &mut ScriptRng, tag: Value) -> String
where UnitCircle: Distribution<[F; 2]>, UnitDisc: Distribution<[F; 2]>, UnitSphere: Distribution<[F; 3]>, UnitBall: Distribution<[F; 3]> {
    let r = sample_kind::<F>(kind, rng);
    match r {
        Err(p) => json!({"op": "rand", "kind": kind, "ft": F::NAME, "res": format!("Panic: {}", p), "finite": false, "degenerate": false, "words": rng.words(), "nrm": [0, 0, 0], "tag": tag}).to_string(),
        Ok(v) => {
            let mut n2 = F::zero(); for &x in &v { n2 = n2 + x * x; }
            let finite = v.iter().all(|x| x.is_finite());
            json!({"op": "rand", "kind": kind, "ft": F::NAME, "res": "Ok", "finite": finite, "degenerate": false, "words": rng.words(),
                   "nrm": if n2.is_finite() { ord_limbs(n2) } else { vec![0, 0, 0] }, "show": v.iter().map(|x| format!("{:e}", x)).collect::<Vec<_>>(), "tag": tag}).to_string()
        }
    }
}

fn rands<F: Fx>(seed: u64, n: usize, out: &mut Vec<String>)
where UnitCircle: Distribution<[F; 2]>, UnitDisc: Distribution<[F; 2]>, UnitSphere: Distribution<[F; 3]>, UnitBall: Distribution<[F; 3]> {
    let mut rnd = Sm(seed);
    for kind in ["disc", "circle", "sphere", "ball"] {
        for i in 0..n { let mut rng = ScriptRng::seeded(rnd.next()); out.push(rand_ev::<F>(kind, &mut rng, json!({"stream": "random", "i": i}))); }
        for pos in 0..6usize { for &w in &lattice() {
            let mut rng = ScriptRng::adversarial(rnd.next(), pos, w);
            out.push(rand_ev::<F>(kind, &mut rng, json!({"stream": "adversarial", "pos": pos, "word": format!("{:#018x}", w)})));
        } }
    }
}

/// word whose Uniform(-1, 1) value is x = -1 + j * 2^-(MANT-1)  (j < 2^MANT; MANT = 23 / 52 fraction bits)
fn word_j<F: Fx>(j: u64) -> u64 { if F::NAME == "f32" { (j << 9) << 32 } else { j << 12 } }
fn mant<F: Fx>() -> u32 { if F::NAME == "f32" { 23 } else { 52 } }
fn l14(mut v: u128) -> Vec<i64> { let mut o = vec![]; loop { o.push((v & 0x3fff) as i64); v >>= 14; if v == 0 { break; } } o }

/// "edge": the acceptance region at the FULL resolution of the proposal lattice.  For a column (all coordinates but the last
/// fixed at lattice points) the accepted values of the last coordinate on its non-negative side are a prefix; the last
/// accepted lattice index is found by bisection on "accepted in the first iteration" (words consumed = dimension).
/// "img": the documented image of an accepted proposal (UnitCircle, UnitSphere), evaluated by the harness in the sampler's
/// float type from the lattice coordinates (declared transcription), against the returned value.
fn edges<F: Fx>(seed: u64, ncol: usize, out: &mut Vec<String>)
where UnitCircle: Distribution<[F; 2]>, UnitDisc: Distribution<[F; 2]>, UnitSphere: Distribution<[F; 3]>, UnitBall: Distribution<[F; 3]> {
    let mut rnd = Sm(seed);
    let m = mant::<F>();
    let half: u64 = 1u64 << (m - 1);                 // j = half  <=>  x = 0
    for kind in ["disc", "circle", "sphere", "ball"] {
        let dim = if kind == "ball" { 3usize } else { 2 };
        for c in 0..ncol {
            // fixed coordinates: evenly spaced columns with a random offset, |x| <= 0.98 (ball: inside the disc of radius 0.98)
            let mut fixed: Vec<u64> = vec![];
            let span = (0.98 * half as f64) as u64;
            for d in 0..dim - 1 {
                let pos = if d == 0 { (c as u64 * 2 * span) / ncol as u64 + rnd.below((2 * span / ncol as u64).max(1)) } else { rnd.below(2 * span) };
                fixed.push(half - span + pos.min(2 * span - 1));
            }
            if dim == 3 { let a = fixed[0] as f64 - half as f64; let b = fixed[1] as f64 - half as f64; if a * a + b * b > 0.96 * (half as f64) * (half as f64) { continue; } }
            let mut acc_at = |jl: u64| -> bool { let mut ws: Vec<u64> = fixed.iter().map(|&j| word_j::<F>(j)).collect(); ws.push(word_j::<F>(jl)); let mut rng = ScriptRng::new(ws, 31); let _ = sample_kind::<F>(kind, &mut rng); rng.words() == dim as u64 };
            // largest jl in [half, 2^m) that is accepted (x_last = 0 is accepted for these columns)
            let (mut a, mut b) = (half, (1u64 << m) - 1);
            if !acc_at(a) { out.push(json!({"op": "edge", "kind": kind, "ft": F::NAME, "res": "Ok", "zero_rejected": true, "fixed": [], "last": [0], "d": [0]}).to_string()); continue; }
            while a < b { let mid = a + (b - a + 1) / 2; if acc_at(mid) { a = mid; } else { b = mid - 1; } }
            out.push(json!({"op": "edge", "kind": kind, "ft": F::NAME, "res": "Ok", "zero_rejected": false,
                "fixed": fixed.iter().map(|&j| l14((j as i64 - half as i64).unsigned_abs() as u128)).collect::<Vec<_>>(), "last": l14((a - half) as u128), "d": l14(half as u128),
                "show": [format!("{:e}", (fixed[0] as f64 - half as f64) / half as f64), format!("{:e}", (a - half) as f64 / half as f64)]}).to_string());
        }
    }
    // images: accepted proposals incl. points close to the axes (tiny second coordinate), where a formula that cancels shows
    for kind in ["circle", "sphere"] {
        for c in 0..ncol {
            let j1 = match c % 4 { 0 => half + (0.999 * half as f64) as u64 - rnd.below(1 << 8), 1 => half - (0.999 * half as f64) as u64 + rnd.below(1 << 8), _ => half - half / 2 + rnd.below(half) };
            let j2 = match c % 3 { 0 => half + 1 + rnd.below(1 << (m / 3)), 1 => half - 1 - rnd.below(1 << (m / 2)), _ => half - half / 2 + rnd.below(half) };
            let mut rng = ScriptRng::new(vec![word_j::<F>(j1), word_j::<F>(j2)], 37);
            let r = sample_kind::<F>(kind, &mut rng);
            if rng.words() != 2 { continue; }                                    // not accepted in the first iteration
            let x1 = F::of((j1 as f64 - half as f64) / half as f64); let x2 = F::of((j2 as f64 - half as f64) / half as f64);     // exact: lattice points are floats
            let sum = x1 * x1 + x2 * x2;
            let two = F::one() + F::one();
            let refv: Vec<F> = if kind == "circle" { vec![(x1 * x1 - x2 * x2) / sum, two * x1 * x2 / sum] }
                               else { let fct = two * (F::one() - sum).sqrt(); vec![x1 * fct, x2 * fct, F::one() - two * sum] };
            match r {
                Err(p) => out.push(json!({"op": "img", "kind": kind, "ft": F::NAME, "res": format!("Panic: {}", p), "got": [], "ref": [], "finite": false}).to_string()),
                Ok(v) => { let fin = v.iter().chain(refv.iter()).all(|x| x.is_finite());
                    out.push(json!({"op": "img", "kind": kind, "ft": F::NAME, "res": "Ok", "finite": fin, "got": v.iter().map(|&x| if fin { ord_limbs(x) } else { vec![0, 0, 0] }).collect::<Vec<_>>(),
                        "ref": refv.iter().map(|&x| if fin { ord_limbs(x) } else { vec![0, 0, 0] }).collect::<Vec<_>>(),
                        "show": [v.iter().map(|x| format!("{:e}", x)).collect::<Vec<_>>(), refv.iter().map(|x| format!("{:e}", x)).collect::<Vec<_>>()]}).to_string()); }
            }
        }
    }
}

pub fn drive(args: &[String]) -> i32 {
    let seed = arg_u64(args, "--seed", 1);
    let n = arg_u64(args, "--random", 2000) as usize;
    let outp = arg_val(args, "--out").unwrap();
    let mut out = vec![];
    lat::<f32>(&mut out); lat::<f64>(&mut out);
    lat_more::<f64>(seed + 7, &mut out);
    if args.iter().any(|a| a == "--thorough") { lat_more::<f32>(seed + 8, &mut out); }
    let ncol = if args.iter().any(|a| a == "--thorough") { 6000 } else { 800 };
    edges::<f32>(seed + 11, ncol, &mut out); edges::<f64>(seed + 12, ncol, &mut out);
    let nlat = out.len();
    rands::<f32>(seed, n, &mut out); rands::<f64>(seed + 1, n, &mut out);
    let mut f = std::io::BufWriter::new(std::fs::File::create(&outp).unwrap());
    for l in &out { writeln!(f, "{}", l).unwrap(); }
    println!("{}", json!({"tool": "geom-drive", "events": out.len(), "lattice_events": nlat}));
    0
}
