//! C03 / C05: support and budget.  Every registry entry is sampled under single-word-adversarial
//! streams (position 0..7 x boundary lattice of words x seeds), under random streams (budget
//! blocks) and, for f32 samplers, under all 2^24 high-bit patterns of the first word.  Calls run
//! in a worker thread under catch_unwind and a watchdog; a panic or a hang of the code under
//! test is data.  Outputs are logged as ordinal limbs; TraceSupport.tla / TraceBudget.tla judge.
use crate::fl::*;
use crate::reg::*;
use crate::rng::ScriptRng;
use crate::util::*;
use serde_json::{json, Value};
use std::io::Write;
use std::sync::mpsc;
use std::time::{Duration, Instant};

pub fn lattice() -> Vec<u64> {
    let m = u64::MAX;
    let mut v = vec![0, 1, m, m - 1, 0xff, m << 8, (m << 8) | 0x7f, 0x100, 0x1ff, 0xfff, m >> 1, (1u64 << 63) | 0xff,
                     0x3ff0_0000_0000_0000, 0x8000_0000_0000_0800, 0x7fff_ffff_ffff_f800, 0x4000_0000_0000_0000, 0xc000_0000_0000_0000];
    for k in [8u32, 11, 12, 31, 32, 33, 40, 41, 52, 53, 62, 63] {
        v.push(1u64 << k); v.push((1u64 << k) - 1); v.push(m - (1u64 << k)); v.push(m << k);
    }
    v.sort(); v.dedup(); v
}
fn word_class(w: u64) -> &'static str {
    if w == u64::MAX { "ones" } else if w == 0 { "zero" } else if w >> 40 == 0xff_ffff { "ones_hi24" }
    else if w >> 12 == 1u64 << 51 { "u0" }          // symmetric ziggurat u = 0: a normal draw of exactly 0
    else if w >> 12 == 0 { "low12" } else if w >> 40 == 0 { "zero_hi24" } else { "other" }
}

#[derive(Clone)]
struct Job { entry: usize, prefix: Vec<u64>, seed: u64, at: usize, word: u64, mode: u8 }
struct Done { out: Result<Out, String>, words: u64, us: u64 }

fn spawn_worker() -> (mpsc::Sender<Vec<Job>>, mpsc::Receiver<Vec<Done>>) {
    let (jtx, jrx) = mpsc::channel::<Vec<Job>>();
    let (dtx, drx) = mpsc::channel::<Vec<Done>>();
    std::thread::spawn(move || {
        let reg = registry();
        let mut cache: Option<(usize, Box<dyn Obj>)> = None;
        while let Ok(js) = jrx.recv() {
            let mut res = Vec::with_capacity(js.len());
            for j in js {
                if cache.as_ref().map(|c| c.0) != Some(j.entry) { cache = (reg[j.entry].make)().map(|o| (j.entry, o)); }
                let Some((_, obj)) = cache.as_ref() else { res.push(Done { out: Err(if reg[j.entry].variant.contains("optional") { "Skipped" } else { "ConstructorFailed" }.into()), words: 0, us: 0 }); continue; };
                let mut rng = if j.mode == 0 { ScriptRng::adversarial(j.seed, j.at, j.word) } else { ScriptRng::new(j.prefix.clone(), j.seed) };
                let t0 = Instant::now();
                let r = guarded(|| obj.sample(&mut rng));
                let mut us = t0.elapsed().as_micros() as u64;
                // wall time on a loaded machine is not CPU time: a call that looks slow is repeated (same words) and the fastest run counts
                if us > 300_000 && r.is_ok() {
                    for _ in 0..2 {
                        let mut rng2 = if j.mode == 0 { ScriptRng::adversarial(j.seed, j.at, j.word) } else { ScriptRng::new(j.prefix.clone(), j.seed) };
                        let t1 = Instant::now();
                        let _ = guarded(|| obj.sample(&mut rng2));
                        us = us.min(t1.elapsed().as_micros() as u64);
                    }
                }
                res.push(Done { out: r, words: rng.words(), us });
            }
            if dtx.send(res).is_err() { break; }
        }
    });
    (jtx, drx)
}

/// run a batch under the watchdog; if the batch does not return in time, re-run its jobs one
/// by one (fresh worker each time a call hangs) so that the hanging call is identified
fn run_batch(jobs: Vec<Job>, limit_ms: u64, jtx: &mut mpsc::Sender<Vec<Job>>, drx: &mut mpsc::Receiver<Vec<Done>>) -> Vec<Done> {
    jtx.send(jobs.clone()).unwrap();
    match drx.recv_timeout(Duration::from_millis(limit_ms + 20 * jobs.len() as u64 / 10)) {
        Ok(d) => d,
        Err(_) => {
            let (a, b) = spawn_worker(); *jtx = a; *drx = b;
            let mut out = vec![];
            let mut hangs = 0u32;
            for j in jobs {
                // three established hangs in one batch are enough: the rest of the batch is not run (each hang costs seconds and leaves a
                // spinning thread behind); skipped jobs produce no event
                if hangs >= 3 { out.push(Done { out: Err("Skipped".into()), words: 0, us: 0 }); continue; }
                let j2 = j.clone();
                jtx.send(vec![j]).unwrap();
                match drx.recv_timeout(Duration::from_millis(limit_ms)) {
                    Ok(mut d) => out.push(d.pop().unwrap()),
                    Err(_) => {
                        // confirm on a fresh worker with three times the limit before calling it a hang (a loaded machine can
                        // starve a thread for a while; a genuine hang does not come back)
                        let (a, b) = spawn_worker(); *jtx = a; *drx = b;
                        jtx.send(vec![j2.clone()]).unwrap();
                        match drx.recv_timeout(Duration::from_millis(3 * limit_ms)) {
                            Ok(mut d) => out.push(d.pop().unwrap()),
                            Err(_) => { let (a, b) = spawn_worker(); *jtx = a; *drx = b; hangs += 1; out.push(Done { out: Err("Timeout".into()), words: 0, us: limit_ms * 1000 }); }
                        }
                    }
                }
            }
            out
        }
    }
}

fn limbs_of(kind: &str, b: u64) -> (Vec<i64>, &'static str) {
    match kind {
        "f32" => { let x = f32::from_bits(b as u32); (if x.is_nan() { vec![0, 0, 0] } else { ord_limbs(x) }, class_of(x)) }
        "f64" => { let x = f64::from_bits(b); (if x.is_nan() { vec![0, 0, 0] } else { ord_limbs(x) }, class_of(x)) }
        _ => (u64_limbs(b), "int"),
    }
}
fn param_limbs(e: &Entry) -> Vec<Vec<i64>> {
    e.params.iter().enumerate().map(|(i, &p)| match (e.family, e.ft, i) {
        ("Binomial", _, 0) | ("Hypergeometric", _, _) => u64_limbs(p as u64),
        (_, "f32", _) => ord_limbs(p as f32),
        _ => ord_limbs(p),
    }).collect()
}
fn integral(kind: &str, b: u64) -> bool {
    match kind { "f32" => { let x = f32::from_bits(b as u32); x.is_finite() && x.fract() == 0.0 } "f64" => { let x = f64::from_bits(b); x.is_finite() && x.fract() == 0.0 } _ => true }
}
/// Triangular / Pert: [min, max] widened by 4 ulp of the larger bound (two IEEE operations in the
/// projection, declared in the evidence)
fn widened(e: &Entry) -> Option<(Vec<i64>, Vec<i64>)> {
    if e.family != "Triangular" && e.family != "Pert" { return None; }
    let (mn, mx) = (e.params[0], e.params[1]);
    if e.ft == "f32" { let (mn, mx) = (mn as f32, mx as f32); let u = mn.abs().max(mx.abs()) * f32::EPSILON * 4.0; Some((ord_limbs(mn - u), ord_limbs(mx + u))) }
    else { let u = mn.abs().max(mx.abs()) * f64::EPSILON * 4.0; Some((ord_limbs(mn - u), ord_limbs(mx + u))) }
}
/// weighted indices: is the weight of the returned index non-zero?
fn weight_positive(e: &Entry, idx: u64) -> bool { (idx as usize) < e.params.len() && e.params[idx as usize] > 0.0 }

fn base_event(e: &Entry, ei: usize) -> Value {
    let mut v = json!({"fam": e.family, "ft": e.ft, "variant": e.variant, "e": ei, "p": param_limbs(e), "np": e.params.len(), "label": e.label()});
    if let Some((lo, hi)) = widened(e) { v["lo4"] = json!(lo); v["hi4"] = json!(hi); }
    v
}

pub fn drive(args: &[String]) -> i32 {
    let seed = arg_u64(args, "--seed", 1);
    let nseeds = arg_u64(args, "--seeds", 1);
    let positions = arg_u64(args, "--positions", 8) as usize;
    let block_calls = arg_u64(args, "--block-calls", 1000);
    let sweep_entries = arg_u64(args, "--sweep", 1);
    let limit_ms = arg_u64(args, "--limit-ms", 2000);
    let only = arg_val(args, "--only");
    let only_idx: Option<Vec<usize>> = arg_val(args, "--only-idx").map(|s| s.split(',').filter_map(|x| x.parse().ok()).collect());
    let sem = arg_val(args, "--sem").unwrap_or("checked".into());
    let mut panicked: std::collections::BTreeSet<usize> = Default::default();
    let outp = arg_val(args, "--out").unwrap();
    let reg = registry();
    let lat = lattice();
    let mut f = std::io::BufWriter::new(std::fs::File::create(&outp).unwrap());
    let (mut jtx, mut drx) = spawn_worker();
    let mut nev = 0u64; let mut ncalls = 0u64; let mut ntimeouts = 0u64;
    let mut aborted = false;
    for (ei, e) in reg.iter().enumerate() {
        if let Some(o) = &only { if !e.label().contains(o.as_str()) { continue; } }
        if let Some(ix) = &only_idx { if !ix.contains(&ei) { continue; } }
        if e.variant == "empty" { continue; }              // nothing to sample: outside C03 / C05
        // every timed-out call leaves a spinning thread behind: once hangs are established, stop driving
        if ntimeouts >= 12 { aborted = true; break; }
        let mut base = base_event(e, ei);
        base["sem"] = json!(sem);
        // adversarial schedules
        let mut entry_timeouts = 0u64;
        let mut entry_max_us = 0u64;                 // slowest single call seen for this entry (drives how many more calls are spent on it)
        for s in 0..nseeds {
            for pos in 0..positions {
                if entry_timeouts >= 3 { continue; }       // a hanging entry has been established: do not spend 2 s per further call
                if entry_max_us > 20_000 && (s > 0 || pos > 2) { continue; }     // single calls take tens of milliseconds: three positions of one seed are enough
                let jobs: Vec<Job> = lat.iter().map(|&w| Job { entry: ei, prefix: vec![], seed: seed.wrapping_add(s * 7919 + ei as u64), at: pos, word: w, mode: 0 }).collect();
                let dones = run_batch(jobs, limit_ms, &mut jtx, &mut drx);
                for (&w, d) in lat.iter().zip(dones.into_iter()) {
                    if d.out.as_ref().err().map(|p| p == "Skipped").unwrap_or(false) { continue; }
                    ncalls += 1; entry_max_us = entry_max_us.max(d.us);
                    let mut ev = base.clone();
                    ev["op"] = json!("call"); ev["pos"] = json!(pos); ev["word"] = json!(format!("{:#018x}", w)); ev["wc"] = json!(word_class(w));
                    ev["words"] = json!(d.words.min(2_000_000_000)); ev["us"] = json!(d.us.min(2_000_000_000)); ev["seed"] = json!(s);
                    match d.out {
                        Ok(o) => {
                            let comps: Vec<(Vec<i64>, &str)> = o.bits.iter().map(|&b| limbs_of(o.kind, b)).collect();
                            ev["res"] = json!("Ok");
                            ev["out"] = json!(comps.iter().map(|c| c.0.clone()).collect::<Vec<_>>());
                            ev["ocls"] = json!(comps.iter().map(|c| c.1).collect::<Vec<_>>());
                            ev["integral"] = json!(o.bits.iter().all(|&b| integral(o.kind, b)));
                            ev["wpos"] = json!(if e.family.starts_with("Weighted") { weight_positive(e, o.bits[0]) } else { true });
                            ev["show"] = json!(o.bits.iter().map(|&b| match o.kind { "f32" => format!("{:e}", f32::from_bits(b as u32)), "f64" => format!("{:e}", f64::from_bits(b)), _ => format!("{}", b) }).collect::<Vec<_>>());
                        }
                        Err(p) => { if p == "Timeout" { ntimeouts += 1; entry_timeouts += 1; } else { panicked.insert(ei); }
                            ev["res"] = json!(if p == "Timeout" { p.clone() } else { format!("Panic: {}", p) });
                            ev["out"] = json!([]); ev["ocls"] = json!([]); ev["integral"] = json!(true); ev["wpos"] = json!(true); ev["show"] = json!([]); }
                    }
                    writeln!(f, "{}", ev).unwrap(); nev += 1;
                }
            }
        }
        // the adversarial word right after a stratified random word: a branch that is selected by the previous draw with
        // probability >= 3% (a region of a multi-region proposal) is reached with the extreme words whatever the seed
        // an entry whose single calls already take tens of milliseconds is not driven 10^5 more times (the slow calls are judged)
        let slow = entry_max_us > 20_000;
        if entry_timeouts < 3 && e.variant != "beyond-E" && !slow {
            let mut srnd = crate::rng::Sm(seed ^ 0x57a7 ^ (ei as u64) << 20);
            for pos in 1..positions.min(6) {
            if entry_timeouts >= 1 { break; }          // one established hang per entry is enough (each costs seconds and a spinning thread)
            let mut jobs: Vec<Job> = vec![]; let mut meta: Vec<(usize, u64, u64)> = vec![];
            for &w in &[0u64, u64::MAX] { for k in 0..32u64 {
                let mut prefix: Vec<u64> = (0..pos - 1).map(|_| srnd.next()).collect();
                prefix.push((k << 59) | (srnd.next() >> 5)); prefix.push(w);
                jobs.push(Job { entry: ei, prefix, seed: srnd.next(), at: 0, word: 0, mode: 1 }); meta.push((pos, w, k));
            } }
            let dones = run_batch(jobs, limit_ms, &mut jtx, &mut drx);
            for ((pos, w, k), d) in meta.into_iter().zip(dones.into_iter()) {
                if d.out.as_ref().err().map(|p| p == "Skipped").unwrap_or(false) { continue; }
                ncalls += 1;
                let mut ev = base.clone();
                ev["op"] = json!("call"); ev["pos"] = json!(pos); ev["word"] = json!(format!("{:#018x}", w)); ev["wc"] = json!(word_class(w)); ev["strat"] = json!(k);
                ev["words"] = json!(d.words.min(2_000_000_000)); ev["us"] = json!(d.us.min(2_000_000_000)); ev["seed"] = json!(0);
                match d.out {
                    Ok(o) => {
                        let comps: Vec<(Vec<i64>, &str)> = o.bits.iter().map(|&b| limbs_of(o.kind, b)).collect();
                        ev["res"] = json!("Ok");
                        ev["out"] = json!(comps.iter().map(|c| c.0.clone()).collect::<Vec<_>>());
                        ev["ocls"] = json!(comps.iter().map(|c| c.1).collect::<Vec<_>>());
                        ev["integral"] = json!(o.bits.iter().all(|&b| integral(o.kind, b)));
                        ev["wpos"] = json!(if e.family.starts_with("Weighted") { weight_positive(e, o.bits[0]) } else { true });
                        ev["show"] = json!(o.bits.iter().map(|&b| match o.kind { "f32" => format!("{:e}", f32::from_bits(b as u32)), "f64" => format!("{:e}", f64::from_bits(b)), _ => format!("{}", b) }).collect::<Vec<_>>());
                    }
                    Err(p) => { if p == "Timeout" { ntimeouts += 1; entry_timeouts += 1; } else { panicked.insert(ei); }
                        ev["res"] = json!(if p == "Timeout" { p.clone() } else { format!("Panic: {}", p) });
                        ev["out"] = json!([]); ev["ocls"] = json!([]); ev["integral"] = json!(true); ev["wpos"] = json!(true); ev["show"] = json!([]); }
                }
                writeln!(f, "{}", ev).unwrap(); nev += 1;
            }
            }
        }
        // random-stream budget block
        let mut sum_words = 0u64; let mut max_words = 0u64; let mut max_us = 0u64; let mut bad = 0u64; let mut outlen = 1usize;
        let (mut bmn, mut bmx): (Option<i128>, Option<i128>) = (None, None);
        let (mut bnan, mut bpinf, mut bninf, mut bnonint, mut bzerow) = (0u64, 0u64, 0u64, 0u64, 0u64);
        let mut bkind = "f64"; let mut first_bad: Option<String> = None;
        // integer-valued samplers are cheap and their rare branches need many draws: ten times the block
        let discrete = ["Binomial", "Hypergeometric", "Poisson", "Geometric", "Zipf", "Zeta", "StandardGeometric"].contains(&e.family) && e.variant != "beyond-E";
        let block_calls = if entry_timeouts >= 3 { 3 } else if slow { 40 } else if discrete { block_calls * 10 } else { block_calls };
        // in chunks, so that an entry whose consumption has exploded (already a budget violation) does not stall the run
        let mut done_calls = 0u64; let t_block = Instant::now();
        let mut all: Vec<Done> = vec![];
        while done_calls < block_calls {
            let chunk = (block_calls - done_calls).min(2000);
            let jobs: Vec<Job> = (done_calls..done_calls + chunk).map(|c| Job { entry: ei, prefix: vec![], seed: seed ^ (0xb10c + c * 104729 + ei as u64 * 31), at: 0, word: 0, mode: 1 }).collect();
            let ds = run_batch(jobs, limit_ms + 20_000, &mut jtx, &mut drx);
            done_calls += chunk;
            let stop = ds.iter().any(|d| d.words >= 100_000 || d.out.as_ref().err().map(|p| p == "Timeout").unwrap_or(false)) || t_block.elapsed().as_secs() > 20;
            all.extend(ds);
            if stop { break; }
        }
        let block_calls = done_calls;
        for d in all {
            if d.out.as_ref().err().map(|p| p == "Skipped").unwrap_or(false) { continue; }
            ncalls += 1;
            sum_words += d.words; max_words = max_words.max(d.words); max_us = max_us.max(d.us);
            match d.out {
                Ok(o) => {
                    outlen = o.bits.len().max(1); bkind = o.kind;
                    for &b in &o.bits {
                        let (ord, cls): (Option<i128>, &str) = match o.kind {
                            "f32" => { let x = f32::from_bits(b as u32); (if x.is_finite() { Some(x.ord() + (1i128 << 63)) } else { None }, class_of(x)) }
                            "f64" => { let x = f64::from_bits(b); (if x.is_finite() { Some(x.ord() + (1i128 << 63)) } else { None }, class_of(x)) }
                            _ => (Some(b as i128), "int"),
                        };
                        match cls { "nan" => bnan += 1, "pinf" => bpinf += 1, "ninf" => bninf += 1, _ => {} }
                        if let Some(v) = ord { bmn = Some(bmn.map_or(v, |m| m.min(v))); bmx = Some(bmx.map_or(v, |m| m.max(v))); }
                        if ["Zipf", "Zeta", "Poisson"].contains(&e.family) && ord.is_some() && !integral(o.kind, b) { bnonint += 1; }
                        if e.family.starts_with("Weighted") && !weight_positive(e, b) { bzerow += 1; }
                    }
                }
                Err(p) => { bad += 1; if p != "Timeout" { panicked.insert(ei); } if first_bad.is_none() { first_bad = Some(p.split(" @ ").next().unwrap_or("").to_string()); } }
            }
        }
        let mut ev = base.clone();
        ev["op"] = json!("block"); ev["calls"] = json!(block_calls); ev["sum_words"] = json!(sum_words.min(2_000_000_000)); ev["max_words"] = json!(max_words.min(2_000_000_000));
        ev["max_us"] = json!(max_us.min(2_000_000_000)); ev["outlen"] = json!(outlen); ev["failed"] = json!(bad);
        let lim = |o: Option<i128>| -> Vec<i64> { match o { None => vec![0, 0, 0], Some(v) => vec![((v >> 42) & 0x3f_ffff) as i64, ((v >> 21) & 0x1f_ffff) as i64, (v & 0x1f_ffff) as i64] } };
        ev["min"] = json!(lim(bmn)); ev["max"] = json!(lim(bmx)); ev["hasfin"] = json!(bmn.is_some()); ev["nan"] = json!(bnan); ev["pinf"] = json!(bpinf); ev["ninf"] = json!(bninf);
        ev["panic"] = json!(bad); ev["nonint"] = json!(bnonint); ev["zerow"] = json!(bzerow); ev["okind"] = json!(bkind); ev["first_bad"] = json!(first_bad.unwrap_or_default());
        ev["offenders"] = json!([]);
        writeln!(f, "{}", ev).unwrap(); nev += 1;
    }
    drop(jtx);
    // 2^24 sweeps of the first word for f32 entries (in parallel, aggregated per entry)
    let mut sweeps = 0u64;
    if sweep_entries > 0 && !aborted {
        let idx: Vec<usize> = reg.iter().enumerate().filter(|(i, e)| e.ft == "f32" && e.variant != "empty" && only_idx.as_ref().map(|ix| ix.contains(i)).unwrap_or(true) && only.as_ref().map(|o| e.label().contains(o.as_str())).unwrap_or(true)
            && ["Cauchy", "Pareto", "Weibull", "Gumbel", "Frechet", "Triangular", "Exp", "Exp1", "Normal", "StandardNormal", "LogNormal", "Zipf", "Zeta", "WeightedTreeIndex", "WeightedAliasIndex", "Beta", "Gamma", "Pert", "UnitDisc", "SkewNormal", "InverseGaussian"].contains(&e.family)).map(|(i, _)| i).collect();
        let idx: Vec<usize> = idx.into_iter().filter(|i| sweep_entries >= 2 || i % 3 == (seed % 3) as usize).collect();
        let nthreads = 12usize;
        let chunks: Vec<Vec<usize>> = (0..nthreads).map(|t| idx.iter().copied().filter(|i| i % nthreads == t).collect()).collect();
        let mut handles = vec![];
        for ch in chunks {
            handles.push(std::thread::spawn(move || {
                let reg = registry();
                let mut res: Vec<String> = vec![];
                for ei in ch {
                    let e = &reg[ei];
                    let Some(obj) = (e.make)() else { continue };
                    let (mut mn, mut mx): (Option<i128>, Option<i128>) = (None, None);
                    let (mut nan, mut pinf, mut ninf, mut panic, mut nonint, mut zerow, mut maxw) = (0u64, 0u64, 0u64, 0u64, 0u64, 0u64, 0u64);
                    let mut offenders: Vec<Value> = vec![];
                    let lowfill = [0u64, 0xff_ffff_ffffu64];
                    for pat in 0..(1u64 << 24) {
                        let w = (pat << 40) | lowfill[(pat & 1) as usize];
                        let mut rng = ScriptRng::adversarial(ei as u64 * 13 + 5, 0, w);
                        let r = guarded(|| obj.sample(&mut rng));
                        maxw = maxw.max(rng.words());
                        let mut off: Option<String> = None;
                        match r {
                            Err(p) => { panic += 1; off = Some(format!("Panic: {}", p.split(" @ ").next().unwrap_or(""))); }
                            Ok(o) => for &b in &o.bits {
                                if o.kind == "f32" {
                                    let x = f32::from_bits(b as u32);
                                    if x.is_nan() { nan += 1; off = Some("nan".into()); }
                                    else if x == f32::INFINITY { pinf += 1; off = Some("+inf".into()); }
                                    else if x == f32::NEG_INFINITY { ninf += 1; off = Some("-inf".into()); }
                                    else { let o = x.ord(); mn = Some(mn.map_or(o, |m| m.min(o))); mx = Some(mx.map_or(o, |m| m.max(o)));
                                           if ["Zipf", "Zeta"].contains(&e.family) && x.fract() != 0.0 { nonint += 1; off = Some("nonint".into()); } }
                                } else {
                                    let o = b as i128; mn = Some(mn.map_or(o, |m| m.min(o))); mx = Some(mx.map_or(o, |m| m.max(o)));
                                    if e.family.starts_with("Weighted") && !weight_positive(e, b) { zerow += 1; off = Some("zero-weight".into()); }
                                }
                            }
                        }
                        if let Some(what) = off { if offenders.len() < 6 && !offenders.iter().any(|v| v["what"] == what.as_str() && v["wc"] == word_class(w)) {
                            offenders.push(json!({"what": what, "word": format!("{:#018x}", w), "wc": word_class(w)})); } }
                    }
                    let lim = |o: Option<i128>, isf: bool| -> Vec<i64> { match o { None => vec![0, 0, 0], Some(v) => { let v = if isf { v + (1i128 << 63) } else { v }; vec![((v >> 42) & 0x3f_ffff) as i64, ((v >> 21) & 0x1f_ffff) as i64, (v & 0x1f_ffff) as i64] } } };
                    let isf = !e.family.starts_with("Weighted");
                    let mut ev = base_event(e, ei);
                    ev["op"] = json!("sweep"); ev["n"] = json!(1u64 << 24); ev["min"] = json!(lim(mn, isf)); ev["max"] = json!(lim(mx, isf));
                    ev["hasfin"] = json!(mn.is_some()); ev["nan"] = json!(nan); ev["pinf"] = json!(pinf); ev["ninf"] = json!(ninf); ev["panic"] = json!(panic);
                    ev["nonint"] = json!(nonint); ev["zerow"] = json!(zerow); ev["max_words"] = json!(maxw.min(2_000_000_000)); ev["offenders"] = json!(offenders);
                    res.push(ev.to_string());
                }
                res
            }));
        }
        for h in handles { for l in h.join().unwrap() { writeln!(f, "{}", l).unwrap(); nev += 1; sweeps += 1; } }
    }
    f.flush().unwrap();
    println!("{}", json!({"tool": "sup-drive", "events": nev, "calls": ncalls, "timeouts": ntimeouts, "entries": reg.len(), "lattice_words": lat.len(), "sweeps_2p24": sweeps, "aborted_after_hangs": aborted,
        "sem": sem, "panicked_entries": panicked.iter().collect::<Vec<_>>()}));
    std::process::exit(0);
}
