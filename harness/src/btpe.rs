//! C02, BTPE (Binomial, n min(p, 1-p) >= 10): pointwise measurements at the anchors of spec/BtpeTable.tla (CASE lines from TLC).
//! Region 2: for the anchor's first word the second words that accept the proposal (the call returns after two words) are a
//! prefix; its length T and the proposal y (output for the smallest second word) are reported.  Region 1: always accepted; for
//! each listed j the number of second words with y >= j (a prefix: y decreases in v).  TraceRejection.tla compares with the table.
use crate::rng::ScriptRng;
use crate::util::*;
use rand_distr::{Beta, Binomial, Distribution, Exp1, Gamma, Geometric, Hypergeometric, Poisson, StandardNormal, Zeta, Zipf};
use serde_json::{json, Value};
use std::io::{BufRead, Write};

fn l14(mut v: u128) -> Vec<i64> { let mut o = vec![]; loop { o.push((v & 0x3fff) as i64); v >>= 14; if v == 0 { break; } } o }
fn first_true(lo: u128, hi: u128, mut pred: impl FnMut(u128) -> bool) -> u128 {
    let (mut a, mut b) = (lo, hi + 1);
    while a < b { let m = a + (b - a) / 2; if pred(m) { b = m; } else { a = m + 1; } }
    a
}

pub fn drive(args: &[String]) -> i32 {
    let outp = arg_val(args, "--out").unwrap();
    let mut passf = arg_val(args, "--passthrough").map(|p| std::fs::File::create(p).unwrap());
    let mut out: Vec<String> = vec![];
    let mut ncases = 0u64;
    const ALL: u128 = (1u128 << 64) - 1;
    for line in std::io::stdin().lock().lines() {
        let Ok(line) = line else { break };
        let Some(p) = tlc_payload(&line, "CASE") else { if let Some(f) = passf.as_mut() { let _ = writeln!(f, "{}", line); } continue; };
        let c: Value = serde_json::from_str(&p).unwrap();
        ncases += 1;
        let id = c["id"].as_i64().unwrap();
        if c.get("kernel").and_then(|k| k.as_str()) == Some("h2pe") {
            // H2PE region 1 (central bell): the proposal depends on the first word only, the accepting second words are a prefix
            let pu = |k: &str| -> u64 { c[k].as_str().unwrap().parse().unwrap() };
            let (nn, kk, ns) = (pu("N"), pu("K"), pu("n"));
            let res = guarded(|| -> Vec<Value> {
                let d = Hypergeometric::new(nn, kk, ns).expect("constructor");
                let mut r = ScriptRng::new(vec![0, 0], 0);
                let mut call = |w1: u64, w2: u64| -> (u64, u64) { r.prefix[0] = w1; r.prefix[1] = w2; r.pos = 0; r.state = 13 ^ w2; r.n32 = 0; r.n64 = 0; r.nbytes = 0; let o = d.sample(&mut r); (o, r.words()) };
                let mut evs = vec![];
                for (k, a) in c["r1"].as_array().unwrap().iter().enumerate() {
                    let w1: u64 = a.as_str().unwrap().parse().unwrap();
                    let (o0, nw0) = call(w1, 0);
                    let t = first_true(0, ALL, |w| call(w1, w as u64).1 != 2);
                    evs.push(json!({"op": "h2pe1", "case": id, "k": k + 1, "N": c["N"], "K": c["K"], "n": c["n"], "out": o0.min(1 << 30), "accepted_at_zero": nw0 == 2, "T": l14(t), "show": [format!("{:.12}", t as f64 / 18446744073709551616.0)]}));
                }
                for (k, a) in c.get("rt").and_then(|x| x.as_array()).cloned().unwrap_or_default().iter().enumerate() {
                    let w1: u64 = a["w1"].as_str().unwrap().parse().unwrap();
                    let pw: u128 = a["probe"].as_str().unwrap().parse::<u64>().unwrap() as u128;
                    let y = a["out"].as_u64().unwrap();
                    let hit = |o: (u64, u64)| o.1 == 2 && o.0 == y;
                    let probe_ok = hit(call(w1, pw as u64));
                    let lo = if probe_ok { first_true(0, pw, |w| hit(call(w1, w as u64))) } else { 0 };
                    let hi = if probe_ok { first_true(pw, ALL, |w| !hit(call(w1, w as u64))) } else { 0 };
                    evs.push(json!({"op": "h2pet", "case": id, "k": k + 1, "N": c["N"], "K": c["K"], "n": c["n"], "probe_ok": probe_ok, "lo": l14(lo), "hi": l14(hi),
                                    "show": [format!("{:.12}", lo as f64 / 18446744073709551616.0), format!("{:.12}", hi as f64 / 18446744073709551616.0)]}));
                }
                evs
            });
            match res {
                Ok(evs) => for mut e in evs { e["res"] = json!("Ok"); out.push(e.to_string()); },
                Err(p) => out.push(json!({"op": "h2pe1", "case": id, "k": 0, "res": format!("Panic: {}", p), "out": -1, "accepted_at_zero": false, "T": [0]}).to_string()),
            }
            continue;
        }
        if c.get("kernel").and_then(|k| k.as_str()) == Some("rej64") {
            // Zipf<f64> / Zeta<f64>: first word = proposal, accepting second uniform words are a prefix
            let fam = c["fam"].as_str().unwrap().to_string();
            let ps: Vec<f64> = c["params"].as_array().unwrap().iter().map(|x| x.as_str().unwrap().parse().unwrap()).collect();
            let ws: Vec<u64> = c["ws"].as_array().unwrap().iter().map(|x| x.as_str().unwrap().parse().unwrap()).collect();
            let res = guarded(|| -> Vec<Value> {
                let zipf = if fam == "Zipf" { Some(Zipf::<f64>::new(ps[0], ps[1]).expect("constructor")) } else { None };
                let zeta = if fam == "Zeta" { Some(Zeta::<f64>::new(ps[0]).expect("constructor")) } else { None };
                let mut r = ScriptRng::new(vec![0, 0], 0);
                let mut call = |w1: u64, w2: u64| -> (f64, u64) { r.prefix[0] = w1; r.prefix[1] = w2; r.pos = 0; r.state = 31 ^ w2; r.n32 = 0; r.n64 = 0; r.nbytes = 0;
                    let o = match (&zipf, &zeta) { (Some(d), _) => d.sample(&mut r), (_, Some(d)) => d.sample(&mut r), _ => f64::NAN }; (o, r.words()) };
                let mut evs = vec![];
                for (i, &w1) in ws.iter().enumerate() {
                    let (o0, n0) = call(w1, 0);
                    let t = first_true(0, ALL, |w| call(w1, w as u64).1 != 2);
                    evs.push(json!({"op": "rej64", "case": id, "i": i + 1, "accepted_at_zero": n0 == 2, "x": if o0 >= 0.0 && o0 < 9007199254740992.0 && o0.fract() == 0.0 { format!("{}", o0 as u64) } else { "-1".to_string() },
                                    "T": l14(t), "show": [format!("{:e}", o0), format!("{:.12}", t as f64 / 18446744073709551616.0)]}));
                }
                evs
            });
            match res {
                Ok(evs) => for mut e in evs { e["res"] = json!("Ok"); out.push(e.to_string()); },
                Err(p) => out.push(json!({"op": "rej64", "case": id, "i": 0, "accepted_at_zero": false, "x": "-1", "T": [0], "res": format!("Panic: {}", p)}).to_string()),
            }
            continue;
        }
        if c.get("kernel").and_then(|k| k.as_str()) == Some("geo") {
            // Geometric(p): trivial algorithm - the words that end the call at once with 0 are a prefix (u <= p);
            // Bringmann-Friedrich - k from the largest remainder, the prefix of words continuing the D loop, and for each
            // remainder m the prefix of accepting uniform words
            let p: f64 = c["p"].as_str().unwrap().parse().unwrap();
            let triv = c["triv"].as_bool().unwrap();
            let ms: Vec<u64> = c["ms"].as_array().unwrap().iter().map(|x| x.as_str().unwrap().parse().unwrap()).collect();
            let above = ((0.99f64 * 9007199254740992.0) as u64) << 11;      // u = 0.99: above every pi (<= 1/2) and fails the trivial test only for p < 0.99
            let res = guarded(|| -> Vec<Value> {
                let d = Geometric::new(p).expect("constructor");
                let mut r = ScriptRng::new(vec![0, 0, 0, 0], 0);
                let mut call = |w: [u64; 4]| -> (u64, u64) { for i in 0..4 { r.prefix[i] = w[i]; } r.pos = 0; r.state = 31 ^ w[0] ^ w[2]; r.n32 = 0; r.n64 = 0; r.nbytes = 0; let o = d.sample(&mut r); (o, r.words()) };
                let mut evs = vec![];
                if triv {
                    let (o0, n0) = call([0, 0, 0, 0]);
                    let t = first_true(0, ALL, |w| call([w as u64, 0, 0, 0]) != (0, 1));
                    evs.push(json!({"op": "geot", "case": id, "out_ok": o0 == 0 && n0 == 1, "T": l14(t), "show": [format!("{:.15}", t as f64 / 18446744073709551616.0)]}));
                    return evs;
                }
                // k: D loop stops at once, remainder word all ones, accepted by u = 0 (any positive threshold)
                let (ok_, nk) = call([above, u64::MAX, 0, 0]);
                let kmeas = if ok_ < u64::MAX && (ok_ + 1).is_power_of_two() { (ok_ + 1).trailing_zeros() as i64 } else { -1 };
                evs.push(json!({"op": "geok", "case": id, "out_ok": nk == 3 && kmeas >= 1, "k": kmeas, "T": [0], "show": [format!("{}", ok_)]}));
                if kmeas < 1 { return evs; }
                let kk = kmeas as u64;
                // pi: first word w continues the D loop iff u(w) < pi: then [above] ends it, remainder 0 accepted by u = 0: result 2^k after 4 words
                let cont = |o: (u64, u64)| o == (1u64 << kk, 4);
                let (o0, n0) = call([0, above, 0, 0]);
                let t = first_true(0, ALL, |w| !cont(call([w as u64, above, 0, 0])));
                evs.push(json!({"op": "geopi", "case": id, "k": kmeas, "out_ok": cont((o0, n0)) && call([u64::MAX, 0, 0, 0]) == (0, 3), "T": l14(t), "show": [format!("{:.15}", t as f64 / 18446744073709551616.0)]}));
                for (i, &m) in ms.iter().enumerate() {
                    let mw = (0xA5A5_5A5A_C3C3_3C3Cu64 << kk.min(63)) | m;       // high bits must be masked away
                    let (o0, n0) = call([above, mw, 0, 0]);
                    let t = first_true(0, ALL, |w| call([above, mw, w as u64, 0]) != (m, 3));
                    evs.push(json!({"op": "geom", "case": id, "i": i + 1, "out_ok": o0 == m && n0 == 3, "T": l14(t), "show": [format!("{}", m), format!("{:.15}", t as f64 / 18446744073709551616.0)]}));
                }
                evs
            });
            match res {
                Ok(evs) => for mut e in evs { e["res"] = json!("Ok"); out.push(e.to_string()); },
                Err(p) => out.push(json!({"op": "geok", "case": id, "out_ok": false, "k": -1, "T": [0], "res": format!("Panic: {}", p)}).to_string()),
            }
            continue;
        }
        if c.get("kernel").and_then(|k| k.as_str()) == Some("binv") {
            // BINV: one word per try; X' (= X, or n - X when the constructor flipped p) is non-decreasing in the word; a try is repeated
            // when the search passes 110.  W1 = number of one-word returns (a prefix), T[x] = number of those with X' <= x (a prefix).
            let n: u64 = c["n"].as_str().unwrap().parse().unwrap();
            let p: f64 = c["p"].as_str().unwrap().parse().unwrap();
            let flipped = c["flipped"].as_bool().unwrap();
            let xs: Vec<u64> = c["xs"].as_array().unwrap().iter().map(|x| x.as_u64().unwrap()).collect();
            let res = guarded(|| -> Value {
                let d = Binomial::new(n, p).expect("constructor");
                let mut r = ScriptRng::new(vec![0], 0);
                let mut call = |w: u64| -> (u64, u64) { r.prefix[0] = w; r.pos = 0; r.state = 37 ^ w; r.n32 = 0; r.n64 = 0; r.nbytes = 0; let o = d.sample(&mut r); (if flipped { n.wrapping_sub(o) } else { o }, r.words()) };
                let w1 = first_true(0, ALL, |w| call(w as u64).1 != 1);
                let mut ts = vec![]; let mut mono = true; let mut prev = 0u128;
                for &x in &xs {
                    let t = if w1 == 0 { 0 } else { first_true(0, w1 - 1, |w| call(w as u64).0 > x) };
                    if t < prev { mono = false; }
                    prev = t;
                    ts.push(l14(t));
                }
                // spot checks of monotonicity on a coarse grid of words
                let mut last = 0u64;
                for i in 0..4096u64 { let w = i << 52; if (w as u128) < w1 { let o = call(w).0; if o < last { mono = false; } last = o; } }
                json!({"op": "binv", "case": id, "mono": mono, "W1": l14(w1), "T": ts,
                       "show": [format!("{}", n), format!("{:e}", p), format!("{:.3e}", 1.0 - w1 as f64 / 18446744073709551616.0), format!("{:.12}", first_true(0, ALL, |w| call(w as u64) != (0, 1)) as f64 / 18446744073709551616.0)]})
            });
            match res {
                Ok(mut e) => { e["res"] = json!("Ok"); out.push(e.to_string()); },
                Err(p) => out.push(json!({"op": "binv", "case": id, "mono": false, "W1": [0], "T": [], "res": format!("Panic: {}", p)}).to_string()),
            }
            continue;
        }
        if c.get("kernel").and_then(|k| k.as_str()) == Some("btpeh") {
            // BTPE region 2 for huge n with a moderate mode: as the default kernel below, proposal reported as y - m
            let n: u64 = c["n"].as_str().unwrap().parse().unwrap();
            let m: u64 = c["m"].as_str().unwrap().parse().unwrap();
            let pr: f64 = c["p"].as_str().unwrap().parse().unwrap();
            let res = guarded(|| -> Vec<Value> {
                let d = Binomial::new(n, pr).expect("constructor");
                let mut r = ScriptRng::new(vec![0, 0], 0);
                let mut call = |w1: u64, w2: u64| -> (i64, u64) { r.prefix[0] = w1; r.prefix[1] = w2; r.pos = 0; r.state = 11 ^ w2; r.n32 = 0; r.n64 = 0; r.nbytes = 0;
                    let o = d.sample(&mut r); ((o as i128 - m as i128).clamp(-1 << 30, 1 << 30) as i64, r.words()) };
                let mut evs = vec![];
                for (k, a) in c["r2"].as_array().unwrap().iter().enumerate() {
                    let w1: u64 = a.as_str().unwrap().parse().unwrap();
                    let (y0, nw0) = call(w1, 0);
                    let t = first_true(0, ALL, |w| call(w1, w as u64).1 != 2);
                    evs.push(json!({"op": "btpe2h", "case": id, "k": k + 1, "dy": y0, "accepted_at_zero": nw0 == 2, "T": l14(t), "show": [format!("{:.12}", t as f64 / 18446744073709551616.0)]}));
                }
                evs
            });
            match res {
                Ok(evs) => for mut e in evs { e["res"] = json!("Ok"); out.push(e.to_string()); },
                Err(p) => out.push(json!({"op": "btpe2h", "case": id, "k": 0, "res": format!("Panic: {}", p), "dy": 0, "accepted_at_zero": false, "T": [0]}).to_string()),
            }
            continue;
        }
        if c.get("kernel").and_then(|k| k.as_str()) == Some("hin") {
            // HIN: one word per call, value monotone in the word - increasing or decreasing depending on the reductions the constructor
            // applied.  T[x] = number of words with value <= x (increasing) resp. >= x (decreasing): a prefix either way.
            let pu = |k: &str| -> u64 { c[k].as_str().unwrap().parse().unwrap() };
            let (nn, kk, ns) = (pu("N"), pu("K"), pu("n"));
            let xs: Vec<u64> = c["xs"].as_array().unwrap().iter().map(|x| x.as_u64().unwrap()).collect();
            let res = guarded(|| -> Value {
                let d = Hypergeometric::new(nn, kk, ns).expect("constructor");
                let mut r = ScriptRng::new(vec![0], 0);
                let mut call = |w: u64| -> (u64, u64) { r.prefix[0] = w; r.pos = 0; r.state = 41 ^ w; r.n32 = 0; r.n64 = 0; r.nbytes = 0; let o = d.sample(&mut r); (o, r.words()) };
                let (o_lo, o_hi) = (call(0).0, call(u64::MAX).0);
                let inc = o_lo <= o_hi;
                let mut one_word = true; let mut mono = true; let mut last = o_lo;
                for i in 0..4096u64 { let (o, nw) = call(i << 52); if nw != 1 { one_word = false; } if (inc && o < last) || (!inc && o > last) { mono = false; } last = o; }
                let ts: Vec<Vec<i64>> = xs.iter().map(|&x| l14(first_true(0, ALL, |w| { let o = call(w as u64).0; if inc { o > x } else { o < x } }))).collect();
                json!({"op": "hin", "case": id, "dir": if inc { "inc" } else { "dec" }, "mono": mono, "one_word": one_word, "T": ts, "show": [format!("{} {} {}", nn, kk, ns), format!("{}..{}", o_lo, o_hi)]})
            });
            match res {
                Ok(mut e) => { e["res"] = json!("Ok"); out.push(e.to_string()); },
                Err(p) => out.push(json!({"op": "hin", "case": id, "dir": "inc", "mono": false, "one_word": false, "T": [], "res": format!("Panic: {}", p)}).to_string()),
            }
            continue;
        }
        if c.get("kernel").and_then(|k| k.as_str()) == Some("btpeg") {
            // granularity of the values returned: over 4096 random streams the binomial law (standard deviation >> 1) returns odd and
            // even values alike; reported: the smallest number of trailing zero bits seen
            let n: u64 = c["n"].as_str().unwrap().parse().unwrap();
            let pr: f64 = c["p"].as_str().unwrap().parse().unwrap();
            let res = guarded(|| -> Value {
                let d = Binomial::new(n, pr).expect("constructor");
                let mut tz = 64u32; let mut mx = 0u64;
                for i in 0..4096u64 { let mut r = ScriptRng::new(vec![], 0x5151 + i); let o = d.sample(&mut r); tz = tz.min(o.trailing_zeros()); mx = mx.max(r.words()); }
                json!({"op": "btpeg", "case": id, "tzmin": tz, "n": c["n"], "show": [format!("{}", n), format!("{:e}", pr), format!("max words {}", mx)]})
            });
            match res {
                Ok(mut e) => { e["res"] = json!("Ok"); out.push(e.to_string()); },
                Err(p) => out.push(json!({"op": "btpeg", "case": id, "tzmin": -1, "n": c["n"], "res": format!("Panic: {}", p)}).to_string()),
            }
            continue;
        }
        if c.get("kernel").and_then(|k| k.as_str()) == Some("cheng") {
            // Cheng BB / BC (Beta<f64>): first uniform word j 2^60 (u1 = j/16 + 2^-53), accepting second words are a prefix
            let a: f64 = c["a"].as_str().unwrap().parse().unwrap(); let b: f64 = c["b"].as_str().unwrap().parse().unwrap();
            let js: Vec<u64> = c["js"].as_array().unwrap().iter().map(|x| x.as_u64().unwrap()).collect();
            let sh = c.get("sh").and_then(|x| x.as_u64()).unwrap_or(60);
            let res = guarded(|| -> Vec<Value> {
                let d = Beta::<f64>::new(a, b).expect("constructor");
                let mut r = ScriptRng::new(vec![0, 0], 0);
                let mut call = |w1: u64, w2: u64| -> (f64, u64) { r.prefix[0] = w1; r.prefix[1] = w2; r.pos = 0; r.state = 29 ^ w2; r.n32 = 0; r.n64 = 0; r.nbytes = 0; let o = d.sample(&mut r); (o, r.words()) };
                let mut evs = vec![];
                for (i, &j) in js.iter().enumerate() {
                    let w1 = j << sh;
                    let (o0, n0) = call(w1, 0);
                    let t = first_true(0, ALL, |w| call(w1, w as u64).1 != 2);
                    evs.push(json!({"op": "cheng", "case": id, "i": i + 1, "accepted_at_zero": n0 == 2, "xq": l14((o0 * 1152921504606846976.0).floor().max(0.0) as u128), "T": l14(t),
                                    "show": [format!("{:e}", o0), format!("{:.12}", t as f64 / 18446744073709551616.0)]}));
                }
                evs
            });
            match res {
                Ok(evs) => for mut e in evs { e["res"] = json!("Ok"); out.push(e.to_string()); },
                Err(p) => out.push(json!({"op": "cheng", "case": id, "i": 0, "accepted_at_zero": false, "xq": [0], "T": [0], "res": format!("Panic: {}", p)}).to_string()),
            }
            continue;
        }
        if c.get("kernel").and_then(|k| k.as_str()) == Some("mt") {
            // Marsaglia-Tsang: normal word (layer 1 of the ziggurat, high bits by bisection so that StandardNormal returns the anchor x),
            // then the uniform words accepting the proposal are a prefix
            let shape: f64 = c["shape"].as_str().unwrap().parse().unwrap();
            let xs: Vec<f64> = c["xs"].as_array().unwrap().iter().map(|x| x.as_str().unwrap().parse().unwrap()).collect();
            for ft in ["f64", "f32"] {
                let res = guarded(|| -> Vec<Value> {
                    let g64 = Gamma::<f64>::new(shape, 1.0).expect("constructor"); let g32 = Gamma::<f32>::new(shape as f32, 1.0).expect("constructor");
                    let mut r = ScriptRng::new(vec![0, 0], 0);
                    let mut call = |w1: u64, w2: u64| -> (f64, u64) { r.prefix[0] = w1; r.prefix[1] = w2; r.pos = 0; r.state = 23 ^ w2; r.n32 = 0; r.n64 = 0; r.nbytes = 0;
                        let o = if ft == "f64" { g64.sample(&mut r) } else { g32.sample(&mut r) as f64 }; (o, r.words()) };
                    let mut evs = vec![];
                    for (j, &xa) in xs.iter().enumerate() {
                        let x_of = |hb: u128| -> (f64, u64) { let mut q = ScriptRng::new(vec![((hb as u64) << 12) | 1], 1); let v: f64 = StandardNormal.sample(&mut q); (v, q.words()) };
                        let hb = first_true(0, (1u128 << 52) - 1, |h| x_of(h).0 >= xa);
                        let (xv, xw) = x_of(hb);
                        let w1 = ((hb as u64) << 12) | 1;
                        let (o0, n0) = call(w1, 0);
                        let t = first_true(0, ALL, |w| call(w1, w as u64).1 != 2);
                        evs.push(json!({"op": "mt", "case": id, "j": j + 1, "ft": ft, "x_ok": xw == 1 && (xv - xa).abs() < 1e-12, "accepted_at_zero": n0 == 2,
                                        "outq": l14((o0 * 1099511627776.0).floor().max(0.0) as u128), "T": l14(t), "show": [format!("{:e}", o0), format!("{:.12}", t as f64 / 18446744073709551616.0)]}));
                    }
                    evs
                });
                match res {
                    Ok(evs) => for mut e in evs { e["res"] = json!("Ok"); out.push(e.to_string()); },
                    Err(p) => out.push(json!({"op": "mt", "case": id, "j": 0, "ft": ft, "x_ok": false, "accepted_at_zero": false, "outq": [0], "T": [0], "res": format!("Panic: {}", p)}).to_string()),
                }
            }
            continue;
        }
        if c.get("kernel").and_then(|k| k.as_str()) == Some("pd") {
            // Poisson PD, steps S / Q: a normal draw (one word) giving k < l, then the uniform words that return k are a suffix
            let lam: f64 = c["lambda"].as_str().unwrap().parse().unwrap();
            let ks: Vec<i64> = c["ks"].as_array().unwrap().iter().map(|x| x.as_i64().unwrap()).collect();
            for ft in ["f64", "f32"] {
                let res = guarded(|| -> Vec<Value> {
                    let d64 = Poisson::<f64>::new(lam).expect("constructor"); let d32 = Poisson::<f32>::new(lam as f32).expect("constructor");
                    let mut r = ScriptRng::new(vec![0, 0], 0);
                    let mut call = |w1: u64, w2: u64| -> (i64, u64) { r.prefix[0] = w1; r.prefix[1] = w2; r.pos = 0; r.state = 17 ^ w1; r.n32 = 0; r.n64 = 0; r.nbytes = 0;
                        let o = if ft == "f64" { d64.sample(&mut r) } else { d32.sample(&mut r) as f64 }; (o as i64, r.words()) };
                    let mut evs = vec![];
                    let mut sm = crate::rng::Sm(0x9d ^ id as u64);
                    for (j, &k) in ks.iter().enumerate() {
                        // a first word whose normal deviate has floor k and which is followed by exactly one uniform word
                        let mut found: Option<u64> = None;
                        for _ in 0..400_000 { let w1 = sm.next(); let (o, nw) = call(w1, u64::MAX); if nw == 2 && o == k { found = Some(w1); break; } }
                        match found {
                            None => evs.push(json!({"op": "pd", "case": id, "j": j + 1, "ft": ft, "k": k, "found": false, "T": [0]})),
                            Some(w1) => { let first_acc = first_true(0, ALL, |w| call(w1, w as u64) == (k, 2));
                                          let t = ALL + 1 - first_acc.min(ALL + 1);
                                          evs.push(json!({"op": "pd", "case": id, "j": j + 1, "ft": ft, "k": k, "found": true, "T": l14(t), "show": [format!("{:.10}", t as f64 / 18446744073709551616.0)]})); }
                        }
                    }
                    // steps E / H: words [normal, u = 0 (rejected by S and Q), exponential, uniform]; the accepted uniform words form an
                    // interval around the middle word; its two half-lengths and the values returned there
                    let es: Vec<f64> = c["es"].as_array().map(|a| a.iter().map(|x| x.as_str().unwrap().parse().unwrap()).collect()).unwrap_or_default();
                    if !es.is_empty() {
                        let mut r4 = ScriptRng::new(vec![0, 0, 0, 0], 0);
                        let mut call4 = |w: [u64; 4]| -> (i64, u64) { r4.prefix.clear(); r4.prefix.extend_from_slice(&w); r4.pos = 0; r4.state = 19 ^ w[3]; r4.n32 = 0; r4.n64 = 0; r4.nbytes = 0;
                            let o = if ft == "f64" { d64.sample(&mut r4) } else { d32.sample(&mut r4) as f64 }; (o as i64, r4.words()) };
                        // a normal word (one word) whose proposal is rejected by u = 0, so that step E follows
                        let mut w1 = 0u64; let mut ok1 = false;
                        for _ in 0..100_000 { let w = sm.next(); let (_, n_acc) = call(w, u64::MAX); let (_, n_rej) = call(w, 0); if n_acc == 2 && n_rej > 2 { w1 = w; ok1 = true; break; } }
                        for (h, &ea) in es.iter().enumerate() {
                            // exponential word: layer 1 of the ziggurat (x = u X[1]), high bits by bisection so that Exp1 returns the anchor (public primitive on a clone)
                            let e_of = |hb: u128| -> (f64, u64) { let mut q = ScriptRng::new(vec![((hb as u64) << 12) | 1], 1); let v: f64 = Exp1.sample(&mut q); (v, q.words()) };
                            let hb = first_true(0, (1u128 << 52) - 1, |h| e_of(h).0 >= ea);
                            let (ev, ew) = e_of(hb);
                            let w3 = ((hb as u64) << 12) | 1;
                            let e_ok = ok1 && ew == 1 && (ev - ea).abs() < 1e-12;
                            let half: u128 = 1u128 << 63;
                            let mid = call4([w1, 0, w3, half as u64]);
                            let acc_p = |o: (i64, u64), k: i64| o.1 == 4 && o.0 == k;
                            // upper side: u >= 0
                            let (kp, ap) = if mid.1 == 4 { let k = mid.0; let last = first_true(half, ALL, |w| !acc_p(call4([w1, 0, w3, w as u64]), k)); (k, last - half) } else { (-1, 0) };
                            // lower side: u < 0 (the word just below the middle)
                            let below = call4([w1, 0, w3, (half - 1) as u64]);
                            let (km, am) = if below.1 == 4 { let k = below.0; let first = first_true(0, half - 1, |w| acc_p(call4([w1, 0, w3, w as u64]), k)); (k, half - first) } else { (-1, 0) };
                            evs.push(json!({"op": "pdh", "case": id, "h": h + 1, "ft": ft, "e_ok": e_ok, "kp": kp, "ap": l14(ap), "km": km, "am": l14(am),
                                            "show": [format!("{:.9}", ap as f64 / 18446744073709551616.0), format!("{:.9}", am as f64 / 18446744073709551616.0)]}));
                        }
                    }
                    evs
                });
                match res {
                    Ok(evs) => for mut e in evs { e["res"] = json!("Ok"); out.push(e.to_string()); },
                    Err(p) => out.push(json!({"op": "pd", "case": id, "j": 0, "ft": ft, "k": -1, "found": false, "T": [0], "res": format!("Panic: {}", p)}).to_string()),
                }
            }
            continue;
        }
        let n = c["n"].as_u64().unwrap();
        let pr: f64 = c["p"].as_str().unwrap().parse().unwrap();
        let flipped = pr > 0.5;
        let res = guarded(|| -> Vec<Value> {
            let d = Binomial::new(n, pr).expect("constructor");
            let mut r = ScriptRng::new(vec![0, 0], 0);
            let mut call = |w1: u64, w2: u64| -> (i64, u64) { r.prefix[0] = w1; r.prefix[1] = w2; r.pos = 0; r.state = 11 ^ w2; r.n32 = 0; r.n64 = 0; r.nbytes = 0;
                let o = d.sample(&mut r); ((if flipped { n - o } else { o }) as i64, r.words()) };
            let mut evs = vec![];
            for (k, a) in c["r2"].as_array().unwrap().iter().enumerate() {
                let w1: u64 = a.as_str().unwrap().parse().unwrap();
                let (y0, nw0) = call(w1, 0);
                let t = first_true(0, ALL, |w| call(w1, w as u64).1 != 2);
                evs.push(json!({"op": "btpe2", "case": id, "k": k + 1, "y": y0, "accepted_at_zero": nw0 == 2, "T": l14(t), "show": [format!("{:.12}", t as f64 / 18446744073709551616.0)]}));
            }
            // tails (regions 3 / 4): the second words returning y after this first word form an interval around the probe word
            for (k, a) in c.get("rt").and_then(|x| x.as_array()).cloned().unwrap_or_default().iter().enumerate() {
                let w1: u64 = a["w1"].as_str().unwrap().parse().unwrap();
                let pw: u128 = a["probe"].as_str().unwrap().parse::<u64>().unwrap() as u128;
                let y = a["y"].as_i64().unwrap();
                let hit = |o: (i64, u64)| o.1 == 2 && o.0 == y;
                let probe_ok = hit(call(w1, pw as u64));
                let lo = if probe_ok { first_true(0, pw, |w| hit(call(w1, w as u64))) } else { 0 };
                let hi = if probe_ok { first_true(pw, ALL, |w| !hit(call(w1, w as u64))) } else { 0 };
                evs.push(json!({"op": "btpet", "case": id, "k": k + 1, "probe_ok": probe_ok, "lo": l14(lo), "hi": l14(hi),
                                "show": [format!("{:.12}", lo as f64 / 18446744073709551616.0), format!("{:.12}", hi as f64 / 18446744073709551616.0)]}));
            }
            for (k, a) in c["r1"].as_array().unwrap().iter().enumerate() {
                let w1: u64 = a["w1"].as_str().unwrap().parse().unwrap();
                let js: Vec<i64> = a["js"].as_array().unwrap().iter().map(|x| x.as_i64().unwrap()).collect();
                let always = [0u64, 1 << 40, 1 << 62, u64::MAX, 0x1234_5678_9abc_def0].iter().all(|&w| call(w1, w).1 == 2);
                let cnts: Vec<Vec<i64>> = js.iter().map(|&j| l14(first_true(0, ALL, |w| call(w1, w as u64).0 < j))).collect();
                evs.push(json!({"op": "btpe1", "case": id, "k": k + 1, "always_two_words": always, "cnts": cnts}));
            }
            evs
        });
        match res {
            Ok(evs) => for mut e in evs { e["res"] = json!("Ok"); out.push(e.to_string()); },
            Err(p) => out.push(json!({"op": "btpe2", "case": id, "k": 0, "res": format!("Panic: {}", p), "y": -1, "accepted_at_zero": false, "T": [0]}).to_string()),
        }
    }
    let mut f = std::io::BufWriter::new(std::fs::File::create(&outp).unwrap());
    for l in &out { writeln!(f, "{}", l).unwrap(); }
    f.flush().unwrap();
    println!("{}", json!({"tool": "btpe-drive", "cases": ncases, "events": out.len()}));
    0
}
