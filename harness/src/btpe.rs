//! C02, BTPE (Binomial, n min(p, 1-p) >= 10): pointwise measurements at the anchors of spec/BtpeTable.tla (CASE lines from TLC).
//! Region 2: for the anchor's first word the second words that accept the proposal (the call returns after two words) are a
//! prefix; its length T and the proposal y (output for the smallest second word) are reported.  Region 1: always accepted; for
//! each listed j the number of second words with y >= j (a prefix: y decreases in v).  TraceRejection.tla compares with the table.
use crate::rng::ScriptRng;
use crate::util::*;
use rand_distr::{Binomial, Distribution, Hypergeometric};
use serde_json::{json, Value};
use std::io::{BufRead, Write};

fn l14(mut v: u128) -> Vec<i64> { let mut o = vec![]; loop { o.push((v & 0x3fff) as i64); v >>= 14; if v == 0 { break; } } o }
fn first_true(lo: u128, hi: u128, mut pred: impl FnMut(u128) -> bool) -> u128 {
    let (mut a, mut b) = (lo, hi + 1);
    while a < b { let m = a + (b - a) / 2; if pred(m) { b = m; } else { a = m + 1; } }
    a
}

pub fn drive(args: &[String]) -> i32 {
    let outp = arg_val(args, "--out").unwrap();
    let mut passf = arg_val(args, "--passthrough").map(|p| std::fs::File::create(p).unwrap());
    let mut out: Vec<String> = vec![];
    let mut ncases = 0u64;
    const ALL: u128 = (1u128 << 64) - 1;
    for line in std::io::stdin().lock().lines() {
        let Ok(line) = line else { break };
        let Some(p) = tlc_payload(&line, "CASE") else { if let Some(f) = passf.as_mut() { let _ = writeln!(f, "{}", line); } continue; };
        let c: Value = serde_json::from_str(&p).unwrap();
        ncases += 1;
        let id = c["id"].as_i64().unwrap();
        if c.get("kernel").and_then(|k| k.as_str()) == Some("h2pe") {
            // H2PE region 1 (central bell): the proposal depends on the first word only, the accepting second words are a prefix
            let pu = |k: &str| -> u64 { c[k].as_str().unwrap().parse().unwrap() };
            let (nn, kk, ns) = (pu("N"), pu("K"), pu("n"));
            let res = guarded(|| -> Vec<Value> {
                let d = Hypergeometric::new(nn, kk, ns).expect("constructor");
                let mut r = ScriptRng::new(vec![0, 0], 0);
                let mut call = |w1: u64, w2: u64| -> (u64, u64) { r.prefix[0] = w1; r.prefix[1] = w2; r.pos = 0; r.state = 13 ^ w2; r.n32 = 0; r.n64 = 0; r.nbytes = 0; let o = d.sample(&mut r); (o, r.words()) };
                let mut evs = vec![];
                for (k, a) in c["r1"].as_array().unwrap().iter().enumerate() {
                    let w1: u64 = a.as_str().unwrap().parse().unwrap();
                    let (o0, nw0) = call(w1, 0);
                    let t = first_true(0, ALL, |w| call(w1, w as u64).1 != 2);
                    evs.push(json!({"op": "h2pe1", "case": id, "k": k + 1, "N": c["N"], "K": c["K"], "n": c["n"], "out": o0.min(1 << 30), "accepted_at_zero": nw0 == 2, "T": l14(t), "show": [format!("{:.12}", t as f64 / 18446744073709551616.0)]}));
                }
                evs
            });
            match res {
                Ok(evs) => for mut e in evs { e["res"] = json!("Ok"); out.push(e.to_string()); },
                Err(p) => out.push(json!({"op": "h2pe1", "case": id, "k": 0, "res": format!("Panic: {}", p), "out": -1, "accepted_at_zero": false, "T": [0]}).to_string()),
            }
            continue;
        }
        let n = c["n"].as_u64().unwrap();
        let pr: f64 = c["p"].as_str().unwrap().parse().unwrap();
        let flipped = pr > 0.5;
        let res = guarded(|| -> Vec<Value> {
            let d = Binomial::new(n, pr).expect("constructor");
            let mut r = ScriptRng::new(vec![0, 0], 0);
            let mut call = |w1: u64, w2: u64| -> (i64, u64) { r.prefix[0] = w1; r.prefix[1] = w2; r.pos = 0; r.state = 11 ^ w2; r.n32 = 0; r.n64 = 0; r.nbytes = 0;
                let o = d.sample(&mut r); ((if flipped { n - o } else { o }) as i64, r.words()) };
            let mut evs = vec![];
            for (k, a) in c["r2"].as_array().unwrap().iter().enumerate() {
                let w1: u64 = a.as_str().unwrap().parse().unwrap();
                let (y0, nw0) = call(w1, 0);
                let t = first_true(0, ALL, |w| call(w1, w as u64).1 != 2);
                evs.push(json!({"op": "btpe2", "case": id, "k": k + 1, "y": y0, "accepted_at_zero": nw0 == 2, "T": l14(t), "show": [format!("{:.12}", t as f64 / 18446744073709551616.0)]}));
            }
            for (k, a) in c["r1"].as_array().unwrap().iter().enumerate() {
                let w1: u64 = a["w1"].as_str().unwrap().parse().unwrap();
                let js: Vec<i64> = a["js"].as_array().unwrap().iter().map(|x| x.as_i64().unwrap()).collect();
                let always = [0u64, 1 << 40, 1 << 62, u64::MAX, 0x1234_5678_9abc_def0].iter().all(|&w| call(w1, w).1 == 2);
                let cnts: Vec<Vec<i64>> = js.iter().map(|&j| l14(first_true(0, ALL, |w| call(w1, w as u64).0 < j))).collect();
                evs.push(json!({"op": "btpe1", "case": id, "k": k + 1, "always_two_words": always, "cnts": cnts}));
            }
            evs
        });
        match res {
            Ok(evs) => for mut e in evs { e["res"] = json!("Ok"); out.push(e.to_string()); },
            Err(p) => out.push(json!({"op": "btpe2", "case": id, "k": 0, "res": format!("Panic: {}", p), "y": -1, "accepted_at_zero": false, "T": [0]}).to_string()),
        }
    }
    let mut f = std::io::BufWriter::new(std::fs::File::create(&outp).unwrap());
    for l in &out { writeln!(f, "{}", l).unwrap(); }
    f.flush().unwrap();
    println!("{}", json!({"tool": "btpe-drive", "cases": ncases, "events": out.len()}));
    0
}
