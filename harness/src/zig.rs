//! C06: export of the ziggurat tables (through the cfg(rand_distr_verif) re-export) for ZigTables.tla
//! and scripted / random executions of StandardNormal and Exp1 for TraceZig.tla.
use crate::fl::*;
use crate::rng::{ScriptRng, Sm};
use crate::util::*;
use rand_distr::verif_hooks::{zig_exp, zig_norm};
use rand_distr::{Distribution, Exp1, StandardNormal};
use serde_json::json;
use std::io::Write;

/// floor(x * 2^k) as little-endian base-2^14 limbs (exact: scaling by a power of two and floor)
fn fixed_limbs(x: f64, k: u32) -> Vec<i64> {
    let v = (x * 2f64.powi(k as i32)).floor();
    let mut n = v as u128;
    let mut out = vec![];
    for _ in 0..4 { out.push((n & 0x3fff) as i64); n >>= 14; }
    out
}

pub fn export(args: &[String]) -> i32 {
    let outp = arg_val(args, "--out").unwrap();
    let mut f = std::io::BufWriter::new(std::fs::File::create(&outp).unwrap());
    let (nr, nx, nf) = zig_norm();
    let (er, ex, ef) = zig_exp();
    for (tab, x, ff) in [("norm", nx, nf), ("exp", ex, ef)] {
        for i in 0..257 {
            writeln!(f, "{}", json!({"kind": "entry", "tab": tab, "i": i, "xo": ord_limbs(x[i]), "fo": ord_limbs(ff[i]),
                                     "xq": fixed_limbs(x[i], 40), "fq": fixed_limbs(ff[i], 45)})).unwrap();
        }
    }
    writeln!(f, "{}", json!({"kind": "R", "tab": "norm", "ro": ord_limbs(nr)})).unwrap();
    writeln!(f, "{}", json!({"kind": "R", "tab": "exp", "ro": ord_limbs(er)})).unwrap();
    println!("{}", json!({"tool": "zig-export", "entries": 4 * 257 + 2}));
    0
}

fn event(dist: &str, word: u64, tail_seed: u64, tag: &str) -> String { event_w(dist, vec![word], tail_seed, tag) }

fn event_w(dist: &str, words_script: Vec<u64>, tail_seed: u64, tag: &str) -> String {
    let word = words_script[0];
    let mut r64 = ScriptRng::new(words_script, tail_seed);
    let mut r32 = r64.clone();
    let (o64, o32): (Result<f64, String>, Result<f32, String>) = if dist == "norm" {
        (guarded(|| StandardNormal.sample(&mut r64)), guarded(|| StandardNormal.sample(&mut r32)))
    } else {
        (guarded(|| Exp1.sample(&mut r64)), guarded(|| Exp1.sample(&mut r32)))
    };
    let i = word & 0xff;
    let words = r64.words();
    match (o64, o32) {
        (Ok(x), Ok(y)) => {
            let single = words == 1 || (i >= 1 && words == 2) || i == 0;
            json!({"dist": dist, "res": "Ok", "i": i, "uneg": (word >> 63) == 0, "words": words, "single": single,
                   "absout": if x.is_nan() { vec![0, 0, 0] } else { ord_limbs(x.abs()) }, "neg": x < 0.0, "finite": x.is_finite(),
                   "f32ok": (x as f32).to_bits() == y.to_bits() && r32.words() == words, "show": format!("{:e}", x), "word": format!("{:#018x}", word), "tag": tag}).to_string()
        }
        (a, b) => json!({"dist": dist, "res": format!("Panic: {:?} {:?}", a.err(), b.err()), "i": i, "uneg": false, "words": words, "single": false,
                         "absout": [0, 0, 0], "neg": false, "finite": false, "f32ok": false, "word": format!("{:#018x}", word), "tag": tag}).to_string(),
    }
}

pub fn drive(args: &[String]) -> i32 {
    let seed = arg_u64(args, "--seed", 1);
    let nrand = arg_u64(args, "--random", 20000);
    let outp = arg_val(args, "--out").unwrap();
    let mut rnd = Sm(seed);
    let mut out = vec![];
    for (dist, xt) in [("norm", zig_norm().1), ("exp", zig_exp().1)] {
        for i in 0..256u64 {
            let edge = xt[i as usize + 1] / xt[i as usize];          // u at the rectangle edge of layer i
            let mut ms: Vec<u64> = vec![0, 1, (1 << 51) - 1, 1 << 51, (1 << 51) + 1, (1 << 52) - 1];
            if dist == "norm" {
                for s in [-1.0f64, 1.0] { let m = (((s * edge + 1.0) / 2.0) * 4503599627370496.0) as i64; for d in [-1i64, 0, 1] { ms.push((m + d).clamp(0, (1 << 52) - 1) as u64); } }
            } else {
                let m = (edge * 4503599627370496.0) as i64; for d in [-1i64, 0, 1] { ms.push((m + d).clamp(0, (1 << 52) - 1) as u64); }
            }
            for m in ms {
                let word = (m << 12) | ((rnd.below(16)) << 8) | i;
                out.push(event(dist, word, rnd.next(), "scripted"));
            }
        }
        // extreme classes whose accept / reject outcome follows from monotonicity alone (no exp / ln needed):
        let umax = u64::MAX; let umin = 0u64;
        for i in 1..256u64 {
            // wedge of layer i: u just above the rectangle edge, then the wedge uniform at its extremes
            let edge = xt[i as usize + 1] / xt[i as usize];
            let m = if dist == "norm" { (((edge + 1.0) / 2.0) * 4503599627370496.0) as u64 + 4 } else { (edge * 4503599627370496.0) as u64 + 4 };
            let w0 = (m.min((1 << 52) - 1) << 12) | i;
            out.push(event_w(dist, vec![w0, umin], rnd.next(), "wedge U=0"));      // f[i+1] < pdf(x) is false for x >= x[i+1]: reject
            out.push(event_w(dist, vec![w0, umax], rnd.next(), "wedge U=max"));    // ~f[i] < pdf(x) for x just above x[i+1]: accept
        }
        // after a wedge rejection the next iteration draws a NEW word and takes its layer from it: script a rejected
        // wedge proposal in layer i, then a word selecting layer l2 with a tiny |u| (rectangle); which table entry was
        // used is identified from the result (u * X[j] == out, one IEEE product per candidate j)
        for i in [1u64, 7, 100, 200, 255] { for l2 in [1u64, 2, 10, 128, 200, 254] {
            let edge = xt[i as usize + 1] / xt[i as usize];
            let m = if dist == "norm" { (((edge + 1.0) / 2.0) * 4503599627370496.0) as u64 + 4 } else { (edge * 4503599627370496.0) as u64 + 4 };
            let w0 = (m.min((1 << 52) - 1) << 12) | i;
            let m2: u64 = if dist == "norm" { (1 << 51) + (1 << 40) } else { 1 << 40 };
            let w2 = (m2 << 12) | l2;
            let u2: f64 = if dist == "norm" { f64::from_bits((m2) | (1024u64 << 52)) - 3.0 } else { f64::from_bits(m2 | (1023u64 << 52)) - (1.0 - f64::EPSILON / 2.0) };
            let mut rng = ScriptRng::new(vec![w0, umin, w2], rnd.next());
            let r = if dist == "norm" { guarded(|| StandardNormal.sample(&mut rng)) } else { guarded(|| Exp1.sample(&mut rng)) };
            let (res, jf, show): (String, i64, f64) = match r { Ok(x) => { let x: f64 = x; ("Ok".into(), (0..256).find(|&j| (u2 * xt[j]).to_bits() == x.to_bits()).map(|j| j as i64).unwrap_or(-1), x) } Err(p) => (format!("Panic: {}", p), -1, 0.0) };
            out.push(json!({"dist": dist, "res": res, "i": i, "uneg": false, "words": rng.words(), "single": false, "absout": [0, 0, 0], "neg": false, "finite": true,
                            "f32ok": true, "tag": "relayer", "l2": l2, "jfound": jf, "show": format!("{:e}", show)}).to_string());
        } }
        for neg in [false, true] {
            // base strip beyond the rectangle: |u| = max
            let m: u64 = if dist == "norm" { if neg { 0 } else { (1 << 52) - 1 } } else { (1 << 52) - 1 };
            let w0 = m << 12;
            if dist == "norm" {
                out.push(event_w(dist, vec![w0, umax, umin], rnd.next(), "tail x~0 y=min"));   // x = ln(U1)/R ~ 0, -2y huge: accept at once
                out.push(event_w(dist, vec![w0, umin, umax], rnd.next(), "tail x big y~0"));   // x^2 huge, -2y ~ 0: reject
            } else {
                out.push(event_w(dist, vec![w0, umax], rnd.next(), "tail U=max"));            // R - ln(U), U ~ 1: the result is R
            }
        }
        for _ in 0..nrand { out.push(event(dist, rnd.next(), rnd.next(), "random")); }
    }
    let mut f = std::io::BufWriter::new(std::fs::File::create(&outp).unwrap());
    for l in &out { writeln!(f, "{}", l).unwrap(); }
    println!("{}", json!({"tool": "zig-drive", "events": out.len()}));
    0
}
