//! C02, two-word rejection samplers in f32 (Zipf, Zeta): the exact induced law over the 2^24 x 2^24 lattice of
//! (proposal word, acceptance word).  One loop iteration draws a proposal word u and an acceptance word y and returns
//! X(u) iff y lies below a threshold acc(u) (measured here by bisection on the number of words consumed: 2 = accepted
//! in the first iteration); iterations are independent, so P(X = k) = A_k / A with A_k = sum of acc(u) over the u with
//! X(u) = k.  The cases arrive as CASE lines from TLC (MCRejection); TraceRejection.tla compares with the documented pmf.
use crate::rng::{ScriptRng, Sm};
use crate::util::*;
use rand_distr::{Beta, Binomial, Distribution, Poisson, Zeta, Zipf};
use serde_json::{json, Value};
use std::io::{BufRead, Write};

type S32 = Box<dyn Fn(&mut ScriptRng) -> f32 + Send + Sync>;

fn mk(fam: &str, p: &[f32]) -> Option<S32> {
    Some(match fam {
        "Zipf" => { let d = Zipf::<f32>::new(p[0], p[1]).ok()?; Box::new(move |r| d.sample(r)) }
        "Zeta" => { let d = Zeta::<f32>::new(p[0]).ok()?; Box::new(move |r| d.sample(r)) }
        "Beta" => { let d = Beta::<f32>::new(p[0], p[1]).ok()?; Box::new(move |r| d.sample(r)) }
        "Poisson" => { let d = Poisson::<f32>::new(p[0]).ok()?; Box::new(move |r| d.sample(r)) }
        _ => return None,
    })
}

struct Two { r: ScriptRng }
impl Two {
    fn new() -> Self { Two { r: ScriptRng::new(vec![0, 0], 0) } }
    fn call(&mut self, s: &S32, u: u64, y: u64) -> (f32, u64) {
        self.r.prefix[0] = u; self.r.prefix[1] = y; self.r.pos = 0; self.r.state = u ^ y.rotate_left(17) ^ 0x2e7; self.r.n32 = 0; self.r.n64 = 0; self.r.nbytes = 0;
        let v = s(&mut self.r);
        (v, self.r.words())
    }
}
fn word(pat: u64) -> u64 { (pat << 40) | (pat.wrapping_mul(0x9E37_79B9_7F4A_7C15) >> 24) }
fn limbs128(v: u128) -> Vec<i64> { vec![(v >> 42) as i64, ((v >> 21) & 0x1f_ffff) as i64, (v & 0x1f_ffff) as i64] }

struct Part { a: Vec<u128>, tail: u128, total: u128, one_word: u128, other: u64, nonint: u64, calls: u64, samples: Vec<Value> }

fn run_range(s: &S32, lo: u64, hi: u64, kmax: usize, seed: u64, xs: &[f32]) -> Part {
    let mut two = Two::new();
    let mut p = Part { a: vec![0; kmax], tail: 0, total: 0, one_word: 0, other: 0, nonint: 0, calls: 0, samples: vec![] };
    let mut rnd = Sm(seed ^ lo);
    const N: u64 = 1 << 24;
    let mut prev: u64 = N;
    for upat in lo..hi {
        let wu = word(upat);
        let (x, nw) = two.call(s, wu, 0); p.calls += 1;
        if nw == 1 { p.one_word += N as u128; if p.samples.len() < 4 { p.samples.push(json!({"kind": "one-word", "upat": upat, "x": format!("{:e}", x)})); } continue; }   // returned without an acceptance draw
        if nw != 2 { p.other += 1; continue; }                   // not even the most favourable acceptance word is accepted: acc(u) = 0
        // acc(u) = number of y patterns accepted (a prefix of the lattice): bisection on "accepted in the first iteration"
        // pred(m): "at least m patterns are accepted", i.e. y = m - 1 is accepted; pred(1) holds (y = 0).  The threshold moves
        // slowly with u, so the search gallops from the previous proposal's threshold before bisecting.
        let mut pred = |m: u64, p: &mut Part, two: &mut Two| -> bool { let (_, w) = two.call(s, wu, word(m - 1)); p.calls += 1; w == 2 };
        let start = prev.clamp(1, N);
        let (mut a, mut b);                                      // invariant: pred(a), not pred(b + 1) (b = N: nothing above)
        if start == 1 || pred(start, &mut p, &mut two) {
            a = start; b = N; let mut step = 1u64;
            while a < N { let nxt = (a + step).min(N); if pred(nxt, &mut p, &mut two) { a = nxt; step *= 2; } else { b = nxt - 1; break; } }
        } else {
            b = start - 1; a = 1; let mut step = 1u64;
            while b > 1 { let nxt = b.saturating_sub(step).max(1); if nxt == 1 || pred(nxt, &mut p, &mut two) { a = nxt; break; } else { b = nxt - 1; step *= 2; } }
        }
        while a < b { let m = a + (b - a + 1) / 2; if pred(m, &mut p, &mut two) { a = m; } else { b = m - 1; } }
        prev = a;
        let acc = a as u128;
        if xs.is_empty() {
            if x.fract() != 0.0 || !x.is_finite() { p.nonint += 1; }
            let k = x as i64;
            if k >= 1 && (k as usize) <= kmax { p.a[k as usize - 1] += acc; } else { p.tail += acc; }
        } else {
            // continuous output: bucket j = the first anchor with x <= xs[j] (anchors are increasing); NaN counts as non-integer
            if x.is_nan() { p.nonint += 1; }
            match xs.iter().position(|&a| x <= a) { Some(j) => p.a[j] += acc, None => p.tail += acc }
        }
        p.total += acc;
        // monotonicity probes: a random y on either side of the threshold
        if upat % 65_521 == 7 {
            let y = rnd.below(N); let (_, w) = two.call(s, wu, word(y));
            p.samples.push(json!({"kind": "probe", "upat": upat, "ypat": y, "acc": a, "accepted": w == 2}));
        }
    }
    p
}

/// Knuth's multiplication method (Poisson with lambda < 12, Binomial's Poisson limit): X = 0 iff the call returns after one
/// word, and those words form a prefix of the word range; their exact number by bisection over all 2^64 words (f64 samplers)
fn one_word_count(sample: &dyn Fn(&mut ScriptRng) -> f64) -> (u128, bool, f64) {
    let mut r = ScriptRng::new(vec![0], 0);
    let mut call = |w: u64| -> (f64, u64) { r.prefix[0] = w; r.pos = 0; r.state = w ^ 0x77; r.n32 = 0; r.n64 = 0; r.nbytes = 0; let v = sample(&mut r); (v, r.words()) };
    let (v0, n0) = call(0);
    if n0 != 1 { return (0, true, v0); }
    let (mut a, mut b) = (0u128, (1u128 << 64) - 1);       // largest w with a one-word return, in [a, b]
    while a < b { let m = a + (b - a + 1) / 2; if call(m as u64).1 == 1 { a = m; } else { b = m - 1; } }
    // witness: the one-word returns are zeros, the next word is not a one-word return
    let ok = call(a as u64).0 == 0.0 && (a == (1u128 << 64) - 1 || call((a + 1) as u64).1 > 1);
    (a + 1, ok, v0)
}

pub fn drive(args: &[String]) -> i32 {
    let seed = arg_u64(args, "--seed", 1);
    let outp = arg_val(args, "--out").unwrap();
    let mut passf = arg_val(args, "--passthrough").map(|p| std::fs::File::create(p).unwrap());
    let mut cases: Vec<Value> = vec![];
    for line in std::io::stdin().lock().lines() {
        let Ok(line) = line else { break };
        let Some(p) = tlc_payload(&line, "CASE") else { if let Some(f) = passf.as_mut() { let _ = writeln!(f, "{}", line); } continue; };
        cases.push(serde_json::from_str(&p).unwrap());
    }
    let mut f = std::io::BufWriter::new(std::fs::File::create(&outp).unwrap());
    let (mut nev, mut calls) = (0u64, 0u64);
    let nthreads = 16u64;
    for c in &cases {
        let id = c["id"].as_i64().unwrap();
        let fam = c["fam"].as_str().unwrap().to_string();
        let params: Vec<f32> = c["params"].as_array().unwrap().iter().map(|s| s.as_str().unwrap().parse::<f32>().unwrap()).collect();
        let xs_s: Vec<String> = c.get("xs").and_then(|v| v.as_array()).map(|a| a.iter().map(|s| s.as_str().unwrap().to_string()).collect()).unwrap_or_default();
        let xs: Vec<f32> = xs_s.iter().map(|s| s.parse::<f32>().unwrap()).collect();
        let kmax = if xs.is_empty() { c["k"].as_u64().unwrap() as usize } else { xs.len() };
        let mut base = json!({"op": "law", "case": id, "fam": fam, "ft": "f32", "params": params.iter().map(|x| format!("{:e}", x)).collect::<Vec<_>>()});
        if fam == "Poisson64" || fam == "BinomialPoisson" {
            let ps: Vec<f64> = c["params"].as_array().unwrap().iter().map(|s| s.as_str().unwrap().parse::<f64>().unwrap()).collect();
            let fam2 = fam.clone();
            let res = guarded(move || {
                if fam2 == "Poisson64" { let d = Poisson::<f64>::new(ps[0]).expect("constructor"); one_word_count(&|r| d.sample(r)) }
                else { let d = Binomial::new(ps[0] as u64, ps[1]).expect("constructor"); one_word_count(&|r| d.sample(r) as f64) }
            });
            base["op"] = json!("knuth64"); base["ft"] = json!("f64");
            match res {
                Ok((cnt, ok, v0)) => { base["res"] = json!("Ok"); base["p0"] = json!(limbs128(cnt)); base["witness"] = json!(ok); base["show"] = json!([format!("{:.17}", cnt as f64 / 18446744073709551616.0), format!("{}", v0)]); }
                Err(p) => { base["res"] = json!(format!("Panic: {}", p)); base["p0"] = json!([0, 0, 0]); base["witness"] = json!(false); }
            }
            writeln!(f, "{}", base).unwrap(); nev += 1; calls += 130; continue;
        }
        let parts: Vec<Result<Part, String>> = {
            let mut hs = vec![];
            for t in 0..nthreads {
                let (fam, params, xs) = (fam.clone(), params.clone(), xs.clone());
                hs.push(std::thread::spawn(move || {
                    install_quiet_panic_hook();
                    guarded(|| { let s = mk(&fam, &params).expect("constructor"); run_range(&s, t * ((1 << 24) / nthreads), (t + 1) * ((1 << 24) / nthreads), kmax, seed, &xs) })
                }));
            }
            hs.into_iter().map(|h| h.join().unwrap()).collect()
        };
        if let Some(Err(p)) = parts.iter().find(|p| p.is_err()) {
            base["res"] = json!(format!("Panic: {}", p)); base["P"] = json!([]); base["tail"] = json!([0, 0, 0]); base["A"] = json!([0, 0, 0]); base["other"] = json!(0); base["nonint"] = json!(0);
            base["oneword"] = json!([0, 0, 0]); base["probes"] = json!([]);
            writeln!(f, "{}", base).unwrap(); nev += 1; continue;
        }
        let parts: Vec<Part> = parts.into_iter().map(|p| p.unwrap()).collect();
        let mut a = vec![0u128; kmax]; let (mut tail, mut total, mut one_word, mut other, mut nonint) = (0u128, 0u128, 0u128, 0u64, 0u64);
        let mut probes = vec![];
        for p in parts { for k in 0..kmax { a[k] += p.a[k]; } tail += p.tail; total += p.total; one_word += p.one_word; other += p.other; nonint += p.nonint; calls += p.calls; probes.extend(p.samples); }
        // a one-word return (Zeta's documented +inf for s near 1) is an outcome of its own with the full weight of its proposal word
        // Knuth (no rejection): every ticket is an outcome; the tickets that need a third word are the tail
        let knuth = fam == "Poisson";
        if knuth { tail = (1u128 << 48) - one_word - total; }
        let denom = if knuth { 1u128 << 48 } else { total + one_word };
        let norm = |x: u128| -> Vec<i64> { if denom == 0 { vec![0, 0, 0] } else { limbs128((x << 64) / denom) } };     // one integer division: counts -> probability in units of 2^-64
        if knuth { base["op"] = json!("knuth32"); }
        if !xs.is_empty() { let mut run = 0u128; for k in 0..kmax { run += a[k]; a[k] = run; } base["op"] = json!("lawc"); base["xs"] = json!(xs_s); }   // cumulative counts at the anchors
        base["res"] = json!("Ok"); base["P"] = json!(a.iter().map(|&x| norm(x)).collect::<Vec<_>>()); base["tail"] = json!(norm(tail)); base["A"] = json!(limbs128(total));
        base["oneword"] = json!(norm(one_word)); base["other"] = json!(other); base["nonint"] = json!(nonint);
        base["probes"] = json!(probes.iter().filter(|p| p["kind"] == "probe").take(200).collect::<Vec<_>>());
        base["show"] = json!(a.iter().take(4).map(|&x| format!("{:.9}", x as f64 / denom.max(1) as f64)).collect::<Vec<_>>());
        writeln!(f, "{}", base).unwrap(); nev += 1;
    }
    f.flush().unwrap();
    println!("{}", json!({"tool": "rej-drive", "cases": cases.len(), "events": nev, "calls": calls}));
    0
}
