mod alias;
mod comp;
mod ctor;
mod disc;
mod fl;
mod geom;
mod obj;
mod reg;
mod sup;
mod rng;
mod tree;
mod tw;
mod util;
mod zig;
mod quant;
mod rej;
mod zigacc;
mod ftree;
mod btpe;

fn main() {
    util::install_quiet_panic_hook();
    let args: Vec<String> = std::env::args().collect();
    let cmd = args.get(1).map(|s| s.as_str()).unwrap_or("");
    let rest = &args[1..];
    let code = match cmd {
        "tree-replay" => tree::replay(rest),
        "tree-drive" => tree::drive(rest),
        "alias-replay" => alias::replay(rest),
        "alias-drive" => alias::drive(rest),
        "ctor-replay" => ctor::replay(rest),
        "ctor-fuzz" => ctor::fuzz(rest),
        "obj-replay" => obj::replay(rest),
        "reg-check" => {
            // do the registry entries exercise the internal representation their label claims? (read off Debug)
            let mut bad: Vec<String> = vec![]; let mut n = 0usize; let mut seen = std::collections::BTreeSet::new();
            for e in reg::registry() {
                let Some(o) = (e.make)() else { bad.push(format!("{}: constructor failed", e.label())); continue };
                let d = o.dbg(); n += 1;
                let want: Vec<&str> = match (e.family, e.variant) {
                    (_, "-") | (_, "beyond-E") | (_, "after-updates") => vec![],
                    ("Gamma", v) => vec![match v { "Small" => "repr: Small(", "One" => "repr: One(", _ => "repr: Large(" }],
                    ("ChiSquared", v) => vec![v],
                    ("Beta", v) => vec![if v == "BB" { "algorithm: BB(" } else { "algorithm: BC(" }],
                    ("Poisson", v) => vec![if v == "Knuth" { "Knuth(" } else { "Rejection(" }],
                    ("Dirichlet", v) => vec![if v == "FromBeta" { "FromBeta(" } else { "FromGamma(" }],
                    ("Hypergeometric", v) => vec![if v == "HIN" { "InverseTransform" } else { "RejectionAcceptance" }],
                    ("Binomial", v) => { let mut w = vec![if v.starts_with("Binv") { "Binv(" } else if v.starts_with("Btpe") { "Btpe(" } else if v.starts_with("Poisson") { "Poisson(" } else { "Constant(" }];
                                         if v.ends_with("flipped") { w.push(", true)"); } w }
                    _ => vec![],
                };
                if !want.is_empty() { seen.insert(format!("{}:{}", e.family, e.variant)); }
                for w in want { if !d.contains(w) { bad.push(format!("{} labelled {:?} but Debug is {}", e.label(), e.variant, &d[..d.len().min(120)])); } }
            }
            println!("{}", serde_json::json!({"tool": "reg-check", "entries": n, "mismatches": bad, "representations_confirmed": seen}));
            0
        }
        "reg-dump" => { for e in reg::registry() { let d = (e.make)().map(|o| o.dbg()).unwrap_or("CONSTRUCTOR FAILED".into()); println!("{}\t{}\t{}", e.label(), e.variant, &d[..d.len().min(160)]); } 0 }
        "sup-drive" => sup::drive(rest),
        "disc-drive" => disc::drive(rest),
        "geom-drive" => geom::drive(rest),
        "comp-drive" => comp::drive(rest),
        "zig-export" => zig::export(rest),
        "zig-drive" => zig::drive(rest),
        "quant-drive" => quant::drive(rest),
        "rej-drive" => rej::drive(rest),
        "zigacc-drive" => zigacc::drive(rest),
        "ftree-drive" => ftree::drive(rest),
        "btpe-drive" => btpe::drive(rest),
        "tree-drive-floats" => tree::drive_floats(rest),
        _ => { eprintln!("unknown subcommand {:?}", cmd); 2 }
    };
    std::process::exit(code);
}
