mod alias;
mod comp;
mod ctor;
mod disc;
mod fl;
mod geom;
mod obj;
mod reg;
mod sup;
mod rng;
mod tree;
mod tw;
mod util;
mod zig;

fn main() {
    util::install_quiet_panic_hook();
    let args: Vec<String> = std::env::args().collect();
    let cmd = args.get(1).map(|s| s.as_str()).unwrap_or("");
    let rest = &args[1..];
    let code = match cmd {
        "tree-replay" => tree::replay(rest),
        "tree-drive" => tree::drive(rest),
        "alias-replay" => alias::replay(rest),
        "alias-drive" => alias::drive(rest),
        "ctor-replay" => ctor::replay(rest),
        "ctor-fuzz" => ctor::fuzz(rest),
        "obj-replay" => obj::replay(rest),
        "sup-drive" => sup::drive(rest),
        "disc-drive" => disc::drive(rest),
        "geom-drive" => geom::drive(rest),
        "comp-drive" => comp::drive(rest),
        "zig-export" => zig::export(rest),
        "zig-drive" => zig::drive(rest),
        "tree-drive-floats" => tree::drive_floats(rest),
        _ => { eprintln!("unknown subcommand {:?}", cmd); 2 }
    };
    std::process::exit(code);
}
