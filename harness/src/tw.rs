//! Weight types of the two weighted-index structures and the two-scale embedding
//! of model weights (DESIGN §2.2): model value v <= m/2 stands for v, model value
//! m-d (d < m/2) stands for W::MAX - d.  For a type whose MAX equals m the
//! embedding is the identity.
use rand::distr::uniform::SampleUniform;
use rand::distr::weighted::Weight;
use std::fmt::Debug;
use std::ops::SubAssign;

pub const NEG: i64 = -1;
pub const NAN: i64 = -2;
pub const UNMAPPABLE: i64 = i64::MIN;

pub trait TW:
    Weight + Clone + Copy + PartialEq + PartialOrd + SampleUniform + SubAssign<Self> + Debug + 'static
{
    const NAME: &'static str;
    const IS_FLOAT: bool;
    /// W::MAX as i128 when it fits, else i128::MAX (u128)
    fn max_i128() -> i128;
    /// bits of the integer rand draws for random_range on this type (small ranges)
    const SAMPLE_BITS: u32;
    fn from_model(v: i64, m: i64) -> Option<Self>;
    fn to_model(self, m: i64) -> i64;
    fn from_u64(v: u64) -> Self;
    fn as_f64(self) -> f64;
}

macro_rules! tw_int {
    ($t:ty, $name:expr, $signed:expr, $bits:expr) => {
        impl TW for $t {
            const NAME: &'static str = $name;
            const IS_FLOAT: bool = false;
            const SAMPLE_BITS: u32 = $bits;
            fn max_i128() -> i128 {
                if (<$t>::MAX as u128) > (i128::MAX as u128) { i128::MAX } else { <$t>::MAX as i128 }
            }
            fn from_model(v: i64, m: i64) -> Option<Self> {
                if v == NAN { return None; }
                if v == NEG { return if $signed { Some((0 as $t).wrapping_sub(1)) } else { None }; }
                if (<$t>::MAX as u128) < (m as u128) { return None; }
                if (<$t>::MAX as u128) == (m as u128) { return Some(v as $t); }
                if v <= m / 2 { Some(v as $t) } else { Some(<$t>::MAX - ((m - v) as $t)) }
            }
            fn to_model(self, m: i64) -> i64 {
                #[allow(unused_comparisons)]
                if self < 0 { return UNMAPPABLE; }
                if (<$t>::MAX as u128) == (m as u128) { return self as i64; }
                if (self as u128) <= (m / 2) as u128 { return self as i64; }
                let d = <$t>::MAX - self;
                if (d as u128) < (m - m / 2) as u128 { m - d as i64 } else { UNMAPPABLE }
            }
            fn from_u64(v: u64) -> Self { v as $t }
            fn as_f64(self) -> f64 { self as f64 }
        }
    };
}
tw_int!(u8, "u8", false, 32);
tw_int!(u16, "u16", false, 32);
tw_int!(u32, "u32", false, 32);
tw_int!(u64, "u64", false, 64);
tw_int!(u128, "u128", false, 128);
tw_int!(usize, "usize", false, 32);
tw_int!(i8, "i8", true, 32);
tw_int!(i16, "i16", true, 32);
tw_int!(i32, "i32", true, 32);
tw_int!(i64, "i64", true, 64);
tw_int!(i128, "i128", true, 128);

macro_rules! tw_float {
    ($t:ty, $name:expr, $bits:expr) => {
        impl TW for $t {
            const NAME: &'static str = $name;
            const IS_FLOAT: bool = true;
            const SAMPLE_BITS: u32 = $bits;
            fn max_i128() -> i128 { i128::MAX }
            fn from_model(v: i64, m: i64) -> Option<Self> {
                if v == NAN { return Some(<$t>::NAN); }
                if v == NEG { return Some(-1.0); }
                // floats never report Overflow: only the small scale is bound
                if v <= m / 2 { Some(v as $t) } else { None }
            }
            fn to_model(self, _m: i64) -> i64 {
                if self >= 0.0 && self <= 1.0e9 && self.fract() == 0.0 { self as i64 } else { UNMAPPABLE }
            }
            fn from_u64(v: u64) -> Self { v as $t }
            fn as_f64(self) -> f64 { self as f64 }
        }
    };
}
tw_float!(f32, "f32", 23);
tw_float!(f64, "f64", 52);

/// run `$body` once per weight type with `$W` bound to the type
#[macro_export]
macro_rules! for_each_tw {
    ($W:ident, $body:block) => {{
        { type $W = u8; $body }
        { type $W = i8; $body }
        { type $W = u16; $body }
        { type $W = i16; $body }
        { type $W = u32; $body }
        { type $W = i32; $body }
        { type $W = u64; $body }
        { type $W = i64; $body }
        { type $W = u128; $body }
        { type $W = i128; $body }
        { type $W = usize; $body }
        { type $W = f32; $body }
        { type $W = f64; $body }
    }};
}
