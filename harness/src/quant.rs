//! C01, one-uniform (inverse-CDF) samplers: exact ticket counts of {w : S(w) <= x} at the anchors of
//! spec/QuantileTable.tla.  The cases arrive as CASE lines printed by TLC (MCQuantile); this driver only
//! counts and records - f32: all 2^24 values of the bits a uniform draw uses; f64: a bisection per half
//! of the word range with its witnesses - and TraceQuantile.tla compares with the documented CDF.
use crate::fl::*;
use crate::rng::{ScriptRng, Sm};
use crate::util::*;
use rand_distr::*;
use serde_json::{json, Value};
use std::io::{BufRead, Write};

pub trait Fq: Fx + std::str::FromStr + Send + Sync {}
impl Fq for f32 {}
impl Fq for f64 {}

type Sampler<F> = Box<dyn Fn(&mut ScriptRng) -> F + Send + Sync>;

fn mk<F: Fq>(fam: &str, p: &[F]) -> Option<Sampler<F>>
where StandardUniform: Distribution<F>, OpenClosed01: Distribution<F>, Open01: Distribution<F>, F: rand_distr::uniform::SampleUniform + num_traits::FloatConst {
    Some(match fam {
        "Cauchy" => { let d = Cauchy::new(p[0], p[1]).ok()?; Box::new(move |r| d.sample(r)) }
        "Pareto" => { let d = Pareto::new(p[0], p[1]).ok()?; Box::new(move |r| d.sample(r)) }
        "Weibull" => { let d = Weibull::new(p[0], p[1]).ok()?; Box::new(move |r| d.sample(r)) }
        "Gumbel" => { let d = Gumbel::new(p[0], p[1]).ok()?; Box::new(move |r| d.sample(r)) }
        "Frechet" => { let d = Frechet::new(p[0], p[1], p[2]).ok()?; Box::new(move |r| d.sample(r)) }
        "Triangular" => { let d = Triangular::new(p[0], p[1], p[2]).ok()?; Box::new(move |r| d.sample(r)) }
        _ => return None,
    })
}

struct One { r: ScriptRng }
impl One {
    fn new() -> Self { One { r: ScriptRng::new(vec![0], 0) } }
    /// S(w): the sample when the first word drawn is w (any further word comes from a fixed SplitMix stream)
    fn call<F: Fq>(&mut self, s: &Sampler<F>, w: u64) -> (F, u64) {
        self.r.prefix[0] = w; self.r.pos = 0; self.r.state = w ^ 0x51ed_270b; self.r.n32 = 0; self.r.n64 = 0; self.r.nbytes = 0;
        let v = s(&mut self.r);
        (v, self.r.words())
    }
}

fn limbs128(v: u128) -> Vec<i64> { vec![(v >> 42) as i64, ((v >> 21) & 0x1f_ffff) as i64, (v & 0x1f_ffff) as i64] }
fn olimbs<F: Fq>(x: F) -> Vec<i64> { if x.is_nan() { vec![0, 0, 0] } else { ord_limbs(x) } }

fn run_case<F: Fq>(c: &Value, seed: u64, out: &mut Vec<String>) -> u64
where StandardUniform: Distribution<F>, OpenClosed01: Distribution<F>, Open01: Distribution<F>, F: rand_distr::uniform::SampleUniform + num_traits::FloatConst {
    let id = c["id"].as_i64().unwrap();
    let fam = c["fam"].as_str().unwrap().to_string();
    let params: Vec<F> = c["params"].as_array().unwrap().iter().map(|s| s.as_str().unwrap().parse::<F>().ok().unwrap()).collect();
    let xs_s: Vec<String> = c["xs"].as_array().unwrap().iter().map(|s| s.as_str().unwrap().to_string()).collect();
    let xs: Vec<F> = xs_s.iter().map(|s| s.parse::<F>().ok().unwrap()).collect();
    let base = json!({"case": id, "fam": fam, "ft": F::NAME, "params": params.iter().map(|x| format!("{:e}", x)).collect::<Vec<_>>()});
    let fail = |what: String, out: &mut Vec<String>| { for k in 0..xs.len() { let mut ev = base.clone(); ev["op"] = json!("q"); ev["anchor"] = json!(k + 1); ev["x"] = json!(xs_s[k]); ev["res"] = json!(what);
        ev["cnt"] = json!([0, 0, 0]); ev["excl"] = json!([0, 0, 0]); ev["xo"] = json!([0, 0, 0]); ev["method"] = json!("none"); ev["wit"] = json!([]); out.push(ev.to_string()); } };
    let s = match guarded(|| mk::<F>(&fam, &params)) { Ok(Some(s)) => s, Ok(None) => { fail("ConstructorFailed".into(), out); return 0; } Err(p) => { fail(format!("Panic: {}", p), out); return 0; } };
    let mut calls = 0u64;
    let mut rnd = Sm(seed ^ (id as u64) << 8);
    let body = guarded(|| {
        let mut evs: Vec<String> = vec![];
        let mut one = One::new();
        // ordinary calls consume one word
        let (mut multi, n1) = (0u64, 2000u64);
        for _ in 0..n1 { let (_, w) = one.call(&s, rnd.next()); if w != 1 { multi += 1; } }
        calls += n1;
        { let mut ev = base.clone(); ev["op"] = json!("one"); ev["calls"] = json!(n1); ev["multi"] = json!(multi); ev["allowed"] = json!(0); ev["res"] = json!("Ok"); evs.push(ev.to_string()); }
        if F::NAME == "f32" {
            // exact: every value of the 24 bits an f32 uniform draw uses (the low bits vary but are not looked at)
            let mut cnt = vec![0u64; xs.len()]; let mut nan = 0u64; let mut multi = 0u64;
            let (mut pinf, mut ninf) = (0u64, 0u64); let (mut vmin, mut vmax): (Option<F>, Option<F>) = (None, None); let mut first_bad: Option<String> = None;
            for pat in 0..(1u64 << 24) {
                let w = (pat << 40) | (pat.wrapping_mul(0x9E37_79B9_7F4A_7C15) >> 24);
                let (v, nw) = one.call(&s, w);
                if nw != 1 { multi += 1; }
                if v.is_nan() { nan += 1; if first_bad.is_none() { first_bad = Some(format!("{:#018x} -> NaN", w)); } continue; }
                if v == F::infinity() { pinf += 1; if first_bad.is_none() { first_bad = Some(format!("{:#018x} -> +inf", w)); } }
                else if v == F::neg_infinity() { ninf += 1; if first_bad.is_none() { first_bad = Some(format!("{:#018x} -> -inf", w)); } }
                else { vmin = Some(vmin.map_or(v, |m| m.min(v))); vmax = Some(vmax.map_or(v, |m| m.max(v))); }
                for (k, &x) in xs.iter().enumerate() { if v <= x { cnt[k] += 1; } }
            }
            calls += 1 << 24;
            // every reachable output: class counts and extremes (the support rule is TLC's)
            { let mut ev = base.clone(); ev["op"] = json!("sup"); ev["res"] = json!("Ok"); ev["nan"] = json!(nan); ev["pinf"] = json!(pinf); ev["ninf"] = json!(ninf);
              ev["hasfin"] = json!(vmin.is_some()); ev["min"] = json!(vmin.map(olimbs).unwrap_or(vec![0, 0, 0])); ev["max"] = json!(vmax.map(olimbs).unwrap_or(vec![0, 0, 0]));
              ev["po"] = json!(params.iter().map(|&p| olimbs(p)).collect::<Vec<_>>()); ev["first_bad"] = json!(first_bad.unwrap_or_default());
              ev["show"] = json!([vmin.map(|v| format!("{:e}", v)).unwrap_or_default(), vmax.map(|v| format!("{:e}", v)).unwrap_or_default()]);
              evs.push(ev.to_string()); }
            for k in 0..xs.len() {
                let mut ev = base.clone(); ev["op"] = json!("q"); ev["anchor"] = json!(k + 1); ev["x"] = json!(xs_s[k]); ev["xo"] = json!(olimbs(xs[k]));
                ev["res"] = json!(if nan > 0 { format!("NaN x {}", nan) } else if multi > 2 { format!("{} of 2^24 first words make the call draw again", multi) } else { "Ok".to_string() });
                ev["cnt"] = json!(limbs128((cnt[k] as u128) << 40)); ev["excl"] = json!([0, 0, 0]); ev["method"] = json!("sweep"); ev["wit"] = json!([]);
                ev["show"] = json!([format!("{:e}", xs[k]), format!("{:.9}", cnt[k] as f64 / (1u64 << 24) as f64)]);
                evs.push(ev.to_string());
            }
        }
        // per half of the word range: the words on which the call consumes exactly one word form the domain [lo, hi)
        let size: u128 = 1u128 << 63;
        let mut halves: Vec<(u128, u128, i32)> = vec![];      // (lo, hi, dir)
        let mut excl_total: u128 = 0;
        for h in 0..2u128 {
            let b0 = h << 63;
            let single = |one: &mut One, w: u128| one.call(&s, w as u64).1 == 1;
            let (mut lo, mut hi) = (b0, b0 + size);
            if !single(&mut one, hi - 1) {            // a suffix of redrawing words: find its start
                let (mut a, mut b) = (lo, hi - 1);   // invariant: a single (or a == lo untested), b not single
                if !single(&mut one, a) { excl_total += size; halves.push((lo, lo, 1)); continue; }
                while b - a > 1 { let m = a + (b - a) / 2; if single(&mut one, m) { a = m; } else { b = m; } }
                excl_total += hi - b; hi = b;
            }
            if !single(&mut one, lo) {                // a prefix of redrawing words
                let (mut a, mut b) = (lo, hi - 1);
                while b - a > 1 { let m = a + (b - a) / 2; if single(&mut one, m) { b = m; } else { a = m; } }
                excl_total += b - lo; lo = b;
            }
            // direction from interior probes (majority of the comparisons between 9 evenly spaced words)
            let probes: Vec<F> = (0..9u128).map(|i| one.call(&s, (lo + (hi - 1 - lo) * i / 8) as u64).0).collect();
            let up = probes.windows(2).filter(|p| p[0] < p[1]).count(); let dn = probes.windows(2).filter(|p| p[0] > p[1]).count();
            let dir = if dn > up { -1 } else { 1 };
            // one lattice step at either end of the half may belong to the neighbouring piece (Cauchy: u = 1/2 exactly maps to
            // tan(pi/2 rounded) = +1.6e16, the last value of the increasing piece below it): excluded and counted in excl
            let step: u128 = 1u128 << (64 - F::MANT_BITS);
            let ok = |a: F, b: F| if dir == 1 { a <= b } else { a >= b };
            if hi - lo > 4 * step {
                if !ok(one.call(&s, lo as u64).0, one.call(&s, (lo + step) as u64).0) { lo += step; excl_total += step; }
                if !ok(one.call(&s, (hi - 1 - step) as u64).0, one.call(&s, (hi - 1) as u64).0) { hi -= step; excl_total += step; }
            }
            halves.push((lo, hi, dir));
            // monotonicity samples: random words and the boundary lattice inside the domain, sorted
            let mut ws: Vec<u128> = (0..96).map(|_| lo + (rnd.next() as u128) % (hi - lo)).collect();
            for &w in crate::sup::lattice().iter() { if (w as u128) >= lo && (w as u128) < hi { ws.push(w as u128); } }
            ws.push(lo); ws.push(hi - 1); ws.sort(); ws.dedup();
            let vals: Vec<F> = ws.iter().map(|&w| one.call(&s, w as u64).0).collect();
            calls += ws.len() as u64;
            let mut ev = base.clone(); ev["op"] = json!("mono"); ev["half"] = json!(h); ev["dir"] = json!(dir);
            ev["res"] = json!(if vals.iter().any(|v| v.is_nan()) { "NaN" } else { "Ok" });
            ev["ords"] = json!(vals.iter().map(|&v| olimbs(v)).collect::<Vec<_>>());
            ev["words"] = json!(ws.iter().map(|&w| format!("{:#018x}", w as u64)).collect::<Vec<_>>());
            evs.push(ev.to_string());
        }
        if F::NAME == "f64" {
            for k in 0..xs.len() {
                let x = xs[k];
                let mut total: u128 = 0; let mut wit: Vec<Value> = vec![];
                for &(lo, hi, dir) in &halves {
                    let n_dom = hi - lo;
                    let pred = |one: &mut One, w: u128| { let v = one.call(&s, w as u64).0; v <= x };
                    // i = number of leading words (dir = 1: for which pred holds; dir = -1: for which it does not)
                    let (mut a, mut b) = (0u128, n_dom);       // answer in [a, b]
                    while a < b { let m = a + (b - a) / 2; let p = pred(&mut one, lo + m); calls += 1; if (dir == 1) == p { a = m + 1; } else { b = m; } }
                    let i = a;
                    let (n, inw, outw) = if dir == 1 { (i, if i > 0 { Some(lo + i - 1) } else { None }, if i < n_dom { Some(lo + i) } else { None }) }
                                         else { (n_dom - i, if i < n_dom { Some(lo + i) } else { None }, if i > 0 { Some(lo + i - 1) } else { None }) };
                    total += n;
                    let inv = inw.map(|w| one.call(&s, w as u64).0); let outv = outw.map(|w| one.call(&s, w as u64).0);
                    // the witness rule compares n with 0 and with the size of a full half: report n relative to the full half when the domain is the full half
                    wit.push(json!({"n": limbs128(n), "dom": limbs128(n_dom), "dir": dir, "has_in": inv.is_some(), "inv": inv.map(olimbs).unwrap_or(vec![0, 0, 0]),
                                    "has_out": outv.is_some(), "outv": outv.map(olimbs).unwrap_or(vec![0, 0, 0]),
                                    "show": [inv.map(|v| format!("{:e}", v)).unwrap_or("-".into()), outv.map(|v| format!("{:e}", v)).unwrap_or("-".into())]}));
                }
                let mut ev = base.clone(); ev["op"] = json!("q"); ev["anchor"] = json!(k + 1); ev["x"] = json!(xs_s[k]); ev["xo"] = json!(olimbs(x));
                ev["res"] = json!("Ok"); ev["cnt"] = json!(limbs128(total)); ev["excl"] = json!(limbs128(excl_total)); ev["method"] = json!("bisect"); ev["wit"] = json!(wit);
                ev["show"] = json!([format!("{:e}", x), format!("{:.17}", total as f64 / 18446744073709551616.0)]);
                evs.push(ev.to_string());
            }
        }
        evs
    });
    match body { Ok(evs) => out.extend(evs), Err(p) => fail(format!("Panic: {}", p), out) }
    calls
}

pub fn drive(args: &[String]) -> i32 {
    let seed = arg_u64(args, "--seed", 1);
    let outp = arg_val(args, "--out").unwrap();
    let only = arg_val(args, "--only-ft");
    let mut passf = arg_val(args, "--passthrough").map(|p| std::fs::File::create(p).unwrap());
    let mut cases: Vec<Value> = vec![];
    for line in std::io::stdin().lock().lines() {
        let Ok(line) = line else { break };
        let Some(p) = tlc_payload(&line, "CASE") else { if let Some(f) = passf.as_mut() { let _ = writeln!(f, "{}", line); } continue; };
        cases.push(serde_json::from_str(&p).unwrap());
    }
    // one thread per (case, float type)
    let mut handles = vec![];
    for (ci, c) in cases.iter().enumerate() {
        for ft in ["f32", "f64"] {
            if let Some(o) = &only { if o != ft { continue; } }
            let c = c.clone();
            handles.push((ci, ft, std::thread::spawn(move || {
                install_quiet_panic_hook();
                let mut out = vec![];
                let calls = if ft == "f32" { run_case::<f32>(&c, seed, &mut out) } else { run_case::<f64>(&c, seed, &mut out) };
                (out, calls)
            })));
        }
    }
    let mut f = std::io::BufWriter::new(std::fs::File::create(&outp).unwrap());
    let (mut nev, mut calls) = (0u64, 0u64);
    for (_, _, h) in handles { let (out, c) = h.join().unwrap(); calls += c; for l in out { writeln!(f, "{}", l).unwrap(); nev += 1; } }
    f.flush().unwrap();
    println!("{}", json!({"tool": "quant-drive", "cases": cases.len(), "events": nev, "calls": calls}));
    0
}
