"""C14 / C15: object model.  spec/ObjectModel.tla generates the schedules (all interleavings up to a
small depth, simulated longer ones; only schedules that revisit a (class, RNG state) key through a
different history are emitted); the harness instantiates each schedule for every registry entry
(every distribution x f32/f64 x internal representation, paired with an object of another type
sharing the RNG handles); TraceObject.tla learns sample() as an uninterpreted function of
(class, RNG state) and rejects any event that contradicts what it learnt."""
import json
from common import *


def run(pid, tier):
    serde = pid == 'C15'
    o = Outcome(pid, tier, 'model_checking')
    build_harness('harness-serde' if serde else 'harness')
    binary = RDVS if serde else RDV
    sd = seed()
    thorough = tier == 'thorough'
    wd = workdir(pid, 'traces')
    # the registry must exercise the internal representations its labels claim (read off Debug): a coverage
    # statement of the evidence, checked rather than asserted
    if not serde:
        rc = rdv(['reg-check'])
        # (a moved algorithm threshold changes which representation a parameter point gets without breaking any
        #  property: reported in the evidence, not an error)
        o.extra['representation_label_mismatches'] = rc['mismatches'][:20]
        if rc['mismatches']:
            log('[note] %d registry entries no longer build the representation their label names' % len(rc['mismatches']))
        o.extra['representations_confirmed_by_debug'] = rc['representations_confirmed']
    runs = [('exh', 3, None, 12 if not thorough else 90), ('sim', 14, 200 if not thorough else 3000, 20 if not thorough else 240)] + ([('sim2', 24, 1500, 120)] if thorough else [])
    total_events = 0
    variants = []
    for (tag, depth, simnum, maxs) in runs:
        tr = wd / ('obj_%s.ndjson' % tag)
        r = tlc('ObjectModel', 'ObjectModel.cfg', pid, 'gen_' + tag, workers=1 if simnum else 4,
                env={'DEPTH': depth, 'SERDE': 1 if serde else 0}, sim=(simnum, depth + 1) if simnum else None,
                seed_arg=sd if simnum else None, timeout=3000,
                pipe_to=[str(binary), 'obj-replay', '--seed', str(sd), '--max-sched', str(maxs), '--out', str(tr)])
        require_ok(r, 'ObjectModel ' + tag)
        o.add_tlc(r, 'ObjectModel depth=%d %s' % (depth, 'simulate num=%d' % simnum if simnum else 'exhaustive'))
        if r.violated:
            raise ToolError('ObjectModel invariant %s violated (model defect)' % r.violated)
        s = json.loads(r.consumer_out.strip().splitlines()[-1])
        if s['schedules_used'] == 0 or s['events'] == 0:
            raise ToolError('no schedule replayed (%s)' % tag)
        variants = s['variants']
        o.extra.setdefault('replay', []).append({k: s[k] for k in ('schedules_seen', 'schedules_used', 'registry_entries', 'instances', 'events', 'constructor_failed')})
        if len(o.samples) < 2:
            o.samples.append({'kind': 'schedule (ObjectModel -> real values)', 'schedule': s['sample_schedule']})
        lines = tr.read_text().splitlines()
        nrt = sum(1 for x in lines if '"roundtrip"' in x)
        nrt_ok = sum(1 for x in lines if '"roundtrip"' in x and '"res":"Ok"' in x)
        if serde and nrt_ok == 0:
            raise ToolError('no successful serde round trip in the trace (vacuous)')
        o.extra.setdefault('roundtrips', []).append({'events': nrt, 'ok': nrt_ok, 'no_serde_impl': sum(1 for x in lines if 'NoSerdeImpl' in x)})
        # batches aligned on reset events
        batch, n = [], 0
        def flush(bi):
            nonlocal batch
            if not batch:
                return
            part = wd / ('obj_%s_%d.ndjson' % (tag, bi))
            part.write_text('\n'.join(batch) + '\n')
            rr = tlc('TraceObject', 'TraceObject.cfg', pid, 'trace_%s_%d' % (tag, bi), trace_mode=True, env={'TRACE': part},
                     timeout=3000, heap='8g')
            require_ok(rr, 'TraceObject')
            if rr.rejected or rr.violated:
                raise ToolError('object trace not consumed: %s' % (rr.rejected or rr.violated))
            o.add_tlc(rr, 'TraceObject %s batch %d' % (tag, bi))
            o.traces += len(batch)
            # map a bad event back to its schedule instance (the preceding reset)
            for (ln, ev) in parse_bad(rr.out):
                k = ln - 1
                while k >= 0 and '"op":"reset"' not in batch[k]:
                    k -= 1
                inst = json.loads(batch[k]) if k >= 0 else {}
                res = str(ev.get('res'))
                o.finding(kind='object', op=ev.get('op'), a=inst.get('a'), b=inst.get('b'), res=res.split(' @ ')[0][:100],
                          event=ev, instance=[json.loads(x) for x in batch[k:ln]][:40],
                          signature='object:%s:%s:%s' % (ev.get('op'), inst.get('a'), res.split(' @ ')[0][:60]))
            batch = []
        bi = 0
        for x in lines:
            if '"op":"reset"' in x and len(batch) > 150000:
                flush(bi); bi += 1
            batch.append(x)
        flush(bi)
        total_events += len(lines)
    o.extra['registry_variants'] = variants
    if len(o.samples) < 4 and total_events:
        o.samples.append({'kind': 'recorded events (real values -> TraceObject)', 'events': [json.loads(x) for x in lines[:6]]})
    o.assumptions = [
        'RNG state, output bits and Debug strings are interned injectively by the harness (ids are names, not judgements)',
        'PartialEq is judged only for types that implement it; registry parameters contain no NaN',
        'the design-level model checks only the object model itself (classes are stable under sampling); the substance is the trace validation of the real executions against the learnt function',
    ] + (['serde: JSON first, TOML for values JSON cannot carry; Zipf, Zeta and Dirichlet have no Serialize/Deserialize impl and are recorded as NoSerdeImpl'] if serde else [])
    return o.finish()
