"""Shared plumbing of ./check: building the harness against /repo's working tree,
running TLC, classifying findings against known_findings.json, writing evidence.

Exit codes (DESIGN §8): 0 held (KNOWN-FINDING lines allowed); 1 after a VIOLATION line;
2 tool failure (build error, TLC crash, tooling timeout, vacuous coverage)."""
import json, os, re, subprocess, sys, time, shutil, hashlib
from pathlib import Path

VERIF = Path(__file__).resolve().parent.parent
REPO = Path('/repo')
SPEC = VERIF / 'spec'
WORK = VERIF / '.work'
CP = '/opt/veriftools/tla/tla2tools.jar:/opt/veriftools/tla/CommunityModules-deps.jar'
RDV = VERIF / 'harness' / 'target' / 'release' / 'rdv'
RDVS = VERIF / 'harness-serde' / 'target' / 'release' / 'rdvs'


class ToolError(Exception):
    pass


def seed():
    try:
        return int(os.environ.get('VERIF_SEED', '20261002'))
    except ValueError:
        return 20261002


def log(*a):
    print(*a, file=sys.stderr, flush=True)


def workdir(pid, tag=''):
    d = WORK / pid / tag if tag else WORK / pid
    d.mkdir(parents=True, exist_ok=True)
    return d


_built = set()


def build_harness(name='harness', profile='release'):
    """cargo build of the harness crate; /repo is a path dependency, so this rebuilds
    rand_distr from the current working tree with --cfg rand_distr_verif."""
    if (name, profile) in _built:
        return
    d = VERIF / name
    lock = d / 'Cargo.lock'
    if not lock.exists():
        shutil.copy(REPO / 'Cargo.lock', lock)
    env = dict(os.environ, CARGO_NET_OFFLINE='true')
    t0 = time.time()
    p = subprocess.run(['cargo', 'build', '--offline'] + (['--release'] if profile == 'release' else ['--profile', profile]), cwd=d, env=env,
                       stdout=subprocess.PIPE, stderr=subprocess.STDOUT, text=True)
    if p.returncode != 0:
        raise ToolError('cargo build of %s failed:\n%s' % (name, p.stdout[-4000:]))
    log('[build] %s (%s) ok in %.1fs' % (name, profile, time.time() - t0))
    _built.add((name, profile))


class TLCResult:
    def __init__(self):
        self.out = ''
        self.rc = None
        self.generated = 0
        self.distinct = 0
        self.depth = 0
        self.violated = None       # name of violated invariant / property
        self.rejected = None       # TRACE-REJECTED payload
        self.error = None          # other TLC error text
        self.coverage = {}         # action name -> count (when -coverage given)
        self.wall = 0.0
        self.trace_text = ''       # counterexample text


_re_states = re.compile(r'(\d+) states generated, (\d+) distinct states found')
_re_depth = re.compile(r'The depth of the complete state graph search is (\d+)')
_re_inv = re.compile(r'Error: Invariant (\S+) is violated')
_re_prop = re.compile(r'Error: (?:Action|Temporal) propert(?:y|ies) (.*?) (?:is|were) violated')
_re_cov = re.compile(r'^<(\w+) line (\d+), col (\d+) to line (\d+), col (\d+) of module (\w+)(?: \([\d ]+\))?>: (\d+):(\d+)', re.M)


def java_cmd(heap, extra_props=()):
    return ['java', '-XX:+UseParallelGC', '-Xmx' + heap, '-Xss1g', *extra_props, '-cp', CP, 'tlc2.TLC']


def tlc(module, cfg, pid, tag, workers=4, env=None, sim=None, timeout=1800, heap='6g',
        coverage=False, trace_mode=False, stdout_path=None, seed_arg=None, pipe_to=None, depth=None):
    """Run TLC on spec/<module>.tla with spec/<cfg>.  Returns TLCResult.
    sim = (num, depth) -> -simulate.  trace_mode -> single worker, depth-first queue.
    pipe_to = argv of a consumer process reading TLC's stdout (behaviour replay); then
    TLC's non-payload lines are taken from the consumer's --passthrough file."""
    md = workdir(pid, 'tlc_' + tag)
    for f in md.glob('*'):
        if f.is_dir():
            shutil.rmtree(f, ignore_errors=True)
    props = []
    if trace_mode:
        props.append('-Dtlc2.tool.queue.IStateQueue=StateDeque')
        workers = 1
    cmd = java_cmd(heap, props) + ['-workers', str(workers), '-metadir', str(md / 'states'), '-cleanup',
                                   '-noGenerateSpecTE', '-config', str(SPEC / cfg)]
    if coverage:
        cmd += ['-coverage', '1']
    if sim:
        cmd += ['-simulate', 'num=%d' % sim[0], '-depth', str(sim[1])]
    elif depth:
        cmd += ['-depth', str(depth)]
    if seed_arg is not None:
        cmd += ['-seed', str(seed_arg)]
    cmd += [str(SPEC / (module + '.tla'))]
    e = dict(os.environ)
    e.pop('JAVA_TOOL_OPTIONS', None)
    if env:
        e.update({k: str(v) for k, v in env.items()})
    r = TLCResult()
    t0 = time.time()
    consumer_out = None
    try:
        if pipe_to:
            passf = md / 'tlc_rest.log'
            p1 = subprocess.Popen(cmd, cwd=SPEC, env=e, stdout=subprocess.PIPE, stderr=subprocess.STDOUT)
            p2 = subprocess.Popen(list(pipe_to) + ['--passthrough', str(passf)], stdin=p1.stdout,
                                  stdout=subprocess.PIPE, stderr=subprocess.PIPE, text=True)
            p1.stdout.close()
            try:
                consumer_out, consumer_err = p2.communicate(timeout=timeout)
            except subprocess.TimeoutExpired:
                p1.kill(); p2.kill()
                raise ToolError('TLC|consumer timeout after %ds (%s %s)' % (timeout, module, cfg))
            p1.wait()
            r.rc = p1.returncode
            r.out = passf.read_text(errors='replace') if passf.exists() else ''
            if p2.returncode != 0:
                raise ToolError('consumer failed rc=%s: %s' % (p2.returncode, consumer_err[-2000:]))
            if consumer_err.strip():
                log('[consumer stderr] ' + consumer_err[-1500:])
                if 'HARNESS PANIC' in consumer_err:
                    raise ToolError('harness panic: ' + consumer_err[-1500:])
        else:
            p = subprocess.run(cmd, cwd=SPEC, env=e, stdout=subprocess.PIPE, stderr=subprocess.STDOUT,
                               text=True, timeout=timeout, errors='replace')
            r.rc = p.returncode
            r.out = p.stdout
    except subprocess.TimeoutExpired:
        raise ToolError('TLC timeout after %ds (%s %s)' % (timeout, module, cfg))
    r.wall = time.time() - t0
    if stdout_path:
        Path(stdout_path).write_text(r.out)
    (md / 'tlc.out').write_text(r.out[-2_000_000:])
    m = None
    for m in _re_states.finditer(r.out):
        pass
    if m:
        r.generated, r.distinct = int(m.group(1)), int(m.group(2))
    if sim:
        ms = re.search(r'The number of states generated: (\d+)', r.out)
        mt = re.search(r'(\d+) traces generated', r.out)
        if ms:
            r.generated = int(ms.group(1))
        if mt:
            r.distinct = int(mt.group(1))
    m = _re_depth.search(r.out)
    if m:
        r.depth = int(m.group(1))
    m = _re_inv.search(r.out)
    if m:
        r.violated = m.group(1)
    m = _re_prop.search(r.out)
    if m and not r.violated:
        r.violated = m.group(1)
    if 'TRACE-REJECTED' in r.out:
        i = r.out.index('<<"TRACE-REJECTED"')
        r.rejected = r.out[i:r.out.index('\n', i)]
    if r.violated:
        i = r.out.find('Error: The behavior up to this point is:')
        if i >= 0:
            r.trace_text = r.out[i:i + 6000]
    for m in _re_cov.finditer(r.out):
        name = m.group(1)
        r.coverage[name] = r.coverage.get(name, 0) + int(m.group(8))
    finished = ('Model checking completed' in r.out) or ('Finished in' in r.out) or sim
    if not r.violated and not r.rejected:
        errs = [ln for ln in r.out.splitlines() if ln.startswith('Error:') or 'Exception' in ln]
        if errs or not finished or r.rc not in (0,):
            # simulation mode ends by reaching num; rc 0
            r.error = '\n'.join(errs[:10]) or ('rc=%s' % r.rc)
    if pipe_to:
        r.consumer_out = consumer_out
    log('[tlc] %s/%s %s: gen=%d distinct=%d depth=%d rc=%s %.1fs%s%s' % (
        module, cfg, tag, r.generated, r.distinct, r.depth, r.rc, r.wall,
        ' VIOLATED=' + r.violated if r.violated else '', ' REJECTED' if r.rejected else ''))
    return r


def tlc_unescape(t):
    out, i = [], 0
    while i < len(t):
        c = t[i]
        if c == '\\' and i + 1 < len(t):
            n = t[i + 1]
            out.append({'"': '"', '\\': '\\', 'n': '\n', 't': '\t'}.get(n, '\\' + n))
            i += 2
        else:
            out.append(c); i += 1
    return ''.join(out)


_re_bad = re.compile(r'^<<"TRACE-BAD", (\d+), "(.*)">>$', re.M)


def parse_bad(out):
    """events that a trace spec printed as violating its rule (and consumed)"""
    res = []
    for m in _re_bad.finditer(out):
        try:
            res.append((int(m.group(1)), json.loads(tlc_unescape(m.group(2)))))
        except json.JSONDecodeError:
            res.append((int(m.group(1)), {'raw': m.group(2)[:500]}))
    return res


def require_ok(r, what):
    """A design-level TLC run that fails for a reason other than a property violation is a tool error."""
    if r.error and not r.violated and not r.rejected:
        raise ToolError('%s: TLC error: %s\n%s' % (what, r.error, r.out[-3000:]))


def rdv(args, timeout=3600, binary=None, input_text=None):
    p = subprocess.run([str(binary or RDV)] + [str(a) for a in args], stdout=subprocess.PIPE,
                       stderr=subprocess.PIPE, text=True, timeout=timeout, input=input_text)
    if p.returncode != 0 or 'HARNESS PANIC' in p.stderr:
        raise ToolError('rdv %s failed rc=%d: %s' % (args[0], p.returncode, p.stderr[-3000:]))
    last = p.stdout.strip().splitlines()[-1] if p.stdout.strip() else '{}'
    try:
        return json.loads(last)
    except json.JSONDecodeError:
        raise ToolError('rdv %s: bad summary: %s' % (args[0], last[:500]))


# ---------------------------------------------------------------------------
# known findings

def load_known():
    p = VERIF / 'known_findings.json'
    if not p.exists():
        return []
    return json.loads(p.read_text()).get('findings', [])


def match_known(finding, known):
    """finding: dict with 'property' and key fields.  A known entry matches if status == 'known',
    the property is the same and every key of entry['match'] is present in the finding with an
    equal value (a list in the entry means 'one of')."""
    for k in known:
        if k.get('status') != 'known' or k.get('property') != finding.get('property'):
            continue
        ok = True
        for key, want in k.get('match', {}).items():
            got = finding.get(key)
            if isinstance(want, list):
                if got not in want:
                    ok = False; break
            elif isinstance(want, dict) and 'regex' in want:
                if got is None or not re.search(want['regex'], str(got)):
                    ok = False; break
            elif got != want:
                ok = False; break
        if ok:
            return k
    return None


class Outcome:
    """Collects what a check run covered and found, writes evidence, decides the exit code."""

    def __init__(self, pid, tier, level):
        self.pid, self.tier, self.level = pid, tier, level
        self.t0 = time.time()
        self.states = 0
        self.transitions = 0
        self.traces = 0
        self.samples = []
        self.cov = {}
        self.assumptions = []
        self.findings = []       # dicts
        self.extra = {}
        self.evaluations = 0
        self.distinct = 0

    def add_tlc(self, r, label):
        self.states += r.distinct
        self.transitions += r.generated
        self.extra.setdefault('tlc_runs', []).append(
            {'run': label, 'distinct_states': r.distinct, 'states_generated': r.generated,
             'depth': r.depth, 'wall_s': round(r.wall, 1)})
        if r.coverage:
            self.cov[label] = r.coverage

    def finding(self, **kw):
        kw.setdefault('property', self.pid)
        self.findings.append(kw)

    def finish(self):
        known = load_known()
        unlisted, listed = [], {}
        for f in self.findings:
            k = match_known(f, known)
            if k:
                listed.setdefault(k['id'], (k, []))[1].append(f)
            else:
                unlisted.append(f)
        for kid, (k, fs) in listed.items():
            print('KNOWN-FINDING: property=%s %s [%s, %d occurrence(s) this run]' % (
                self.pid, k.get('what', kid), kid, len(fs)))
        rep_dir = VERIF / 'replays' / self.pid
        if rep_dir.exists():
            for old in rep_dir.glob('%s_%s_*.json' % (self.pid, self.tier)):
                old.unlink()
        lines = []
        if unlisted:
            rep_dir.mkdir(parents=True, exist_ok=True)
            # group by a short signature so one root cause gives one line
            seen = {}
            for f in unlisted:
                sig = f.get('signature') or json.dumps({k: f[k] for k in sorted(f) if k not in ('detail', 'behaviour', 'event')}, sort_keys=True, default=str)[:300]
                seen.setdefault(sig, []).append(f)
            for n, (sig, fs) in enumerate(list(seen.items())[:20]):
                path = rep_dir / ('%s_%s_%d.json' % (self.pid, self.tier, n))
                path.write_text(json.dumps({'property': self.pid, 'tier': self.tier, 'seed': seed(),
                                            'count': len(fs), 'finding': fs[0]}, indent=1, default=str))
                lines.append('VIOLATION property=%s replay=%s' % (self.pid, path))
        cov = {
            'states': self.states, 'transitions': self.transitions,
            'traces_validated_against_impl': self.traces,
            'samples': self.samples[:6] or ['(none)'],
            'evaluations': max(self.evaluations, 1),
            'distinct_nontrivial': max(self.distinct, 2) if self.distinct else 0,
            'exhaustive': False,
            'action_coverage': self.cov,
            'known_findings_hit': {kid: len(fs) for kid, (k, fs) in listed.items()},
        }
        if not self.distinct:
            del cov['distinct_nontrivial']
        cov.update(self.extra)
        ev = {'property_id': self.pid, 'tier': self.tier, 'seed': seed(), 'level': self.level,
              'coverage': cov, 'assumptions': self.assumptions,
              'wall_s': round(time.time() - self.t0, 1), 'violations': len(unlisted)}
        (VERIF / 'evidence').mkdir(exist_ok=True)
        (VERIF / 'evidence' / (self.pid + '.json')).write_text(json.dumps(ev, indent=1, default=str))
        for ln in lines:
            print(ln)
        print('%s %s: states=%d transitions=%d traces=%d violations=%d known=%d wall=%.0fs' % (
            self.pid, self.tier, self.states, self.transitions, self.traces, len(unlisted),
            sum(len(fs) for _, fs in listed.values()), time.time() - self.t0))
        return 1 if unlisted else 0


def vacuity(r, needed, what):
    """every named action must have been taken at least once in a -coverage run"""
    missing = [a for a in needed if r.coverage.get(a, 0) == 0]
    if missing:
        raise ToolError('%s: vacuous model run, actions never taken: %s' % (what, missing))
