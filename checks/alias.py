"""C08: WeightedAliasIndex.  spec/WeightedAlias.tla:
  (1) exhaustive TLC over every weight vector of length <= L over {0,1,2,3,MAX/len,MAX/len+1,(NEG,NAN)}
      with Law (ticket counting), Reconstruction, VerdictOK, list discipline, range and termination;
  (2) the same run prints every vector with the predicted verdict / ticket counts and they are replayed
      on the real type for all 13 weight types (verdict, weights(), ticket sweeps over both draws);
  (3) random long vectors recorded from the real types are validated by TraceAlias.tla."""
import json
from common import *


def run(pid, tier):
    o = Outcome(pid, tier, 'model_checking')
    build_harness()
    sd = seed()
    thorough = tier == 'thorough'
    L = 6 if thorough else 5
    for m, maxlen in [(255, L), (127, L), (65535, L - 1), (32767, L - 1)] + ([(255, 7)] if thorough else []):
        emit = 0 if maxlen == 7 else 1
        r = tlc('MCAlias', 'MCAlias.cfg', pid, 'mc_m%d_l%d' % (m, maxlen), workers=6,
                env={'M': m, 'MAXLEN': maxlen, 'EMIT': emit}, timeout=7200, heap='8g',
                pipe_to=[str(RDV), 'alias-replay', '--m', str(m)] if emit else None)
        require_ok(r, 'MCAlias M=%d' % m)
        o.add_tlc(r, 'MCAlias M=%d len<=%d (exhaustive%s)' % (m, maxlen, ', vectors replayed' if emit else ''))
        if r.violated:
            o.finding(kind='design', invariant=r.violated, m=m, detail=r.trace_text[:3000], signature='design:' + r.violated)
            continue
        if not emit:
            continue
        s = json.loads(r.consumer_out.strip().splitlines()[-1])
        if s['tool_errors']:
            raise ToolError('alias-replay: %s' % s['tool_errors'][:3])
        if s['vectors'] == 0 or s['per_verdict'].get('Ok', 0) == 0:
            raise ToolError('alias-replay M=%d: vacuous (%s)' % (m, s['per_verdict']))
        o.traces += s['runs']
        o.extra.setdefault('replay', []).append({k: s[k] for k in ('m', 'vectors', 'runs', 'skipped_unrepresentable', 'sweeps', 'tickets', 'per_verdict', 'mismatch_count', 'mismatch_sigs')})
        if len(o.samples) < 2:
            o.samples.append({'kind': 'vector replayed (TLC -> real types)', 'm': m, 'case': s['sample']})
        for mm in s['mismatches']:
            o.finding(kind='replay', type=mm['type'], what=mm['what'], got=mm['got'][:300], want=mm['want'][:300], m=m,
                      behaviour=mm['behaviour'], count=s['mismatch_sigs'].get('%s:%s' % (mm['type'], mm['what'])),
                      signature='replay:%s:%s' % (mm['type'], mm['what']))
    if sum(x['sweeps'] for x in o.extra.get('replay', [])) == 0:
        raise ToolError('no ticket sweep ran')

    wd = workdir(pid, 'traces')
    nv = 150 if not thorough else 1500
    groups = [(255, 'u8', nv * 4, 600), (127, 'i8', nv * 4, 300), (65535, 'u16', nv * 2, 3000), (32767, 'i16', nv * 2, 3000),
              (1073741824, 'u32,i32,u64,i64,u128,i128,usize', nv, 10000 if thorough else 3000),
              (255, 'f32,f64', nv * 6, 3000)]
    for gi, (m, types, n, maxlen) in enumerate(groups):
        tr = wd / ('alias_%d.ndjson' % gi)
        s = rdv(['alias-drive', '--m', m, '--seed', sd + gi, '--vectors', n, '--maxlen', maxlen, '--types', types, '--out', tr])
        r = tlc('TraceAlias', 'TraceAlias.cfg', pid, 'trace_%d' % gi, trace_mode=True, env={'TRACE': tr, 'M': m}, timeout=3000, heap='6g')
        require_ok(r, 'TraceAlias %s' % types)
        if r.rejected or r.violated:
            raise ToolError('alias trace not consumed: %s' % (r.rejected or r.violated))
        o.add_tlc(r, 'TraceAlias M=%d types=%s' % (m, types))
        o.traces += s['events']
        if len(o.samples) < 5:
            e = json.loads(tr.read_text().splitlines()[1])
            for kk in ('w', 'rw'):
                if kk in e:
                    e[kk] = e[kk][:12]
            o.samples.append({'kind': 'recorded event (real type -> TraceAlias)', 'event': e})
        for (ln, ev) in parse_bad(r.out):
            v = str(ev.get('verdict'))
            o.finding(kind='trace', ty=ev.get('ty'), verdict=v.split(' @ ')[0][:80], want=ev.get('want'), event=ev,
                      signature='trace:%s:%s' % (ev.get('ty'), v.split(' @ ')[0][:60]))
    # float weights: the exact induced law over the two words of sample() (columns x threshold prefix)
    fl = wd / 'alias_flaw.ndjson'
    s2 = rdv(['ftree-drive', '--alias', '--seed', sd, '--count', 150 if not thorough else 3000, '--out', fl])
    r2 = tlc('TraceFloatLaw', 'TraceFloatLaw.cfg', pid, 'trace_flaw', trace_mode=True, env={'TRACE': fl}, timeout=3000, heap='4g')
    require_ok(r2, 'TraceFloatLaw')
    if r2.rejected or r2.violated:
        raise ToolError('alias float law trace not consumed: %s' % (r2.rejected or r2.violated))
    o.add_tlc(r2, 'TraceFloatLaw: %d float alias tables (exact two-word law vs weight / total)' % s2['events'])
    o.traces += s2['events']
    for (ln, ev) in parse_bad(r2.out):
        res = str(ev.get('res'))
        o.finding(kind='float-law', ty=ev.get('ft'), res=res.split(' @ ')[0][:80], show=ev.get('show'), event={k: v for k, v in ev.items() if k not in ('cols', 'wq')},
                  signature='float-law:%s:%s' % (ev.get('ft'), res.split(' @ ')[0][:40]))
    o.samples.append({'kind': 'float alias law event', 'event': {k: (v[:3] if k == 'cols' else v) for k, v in json.loads(fl.read_text().splitlines()[0]).items()}})
    o.assumptions = [
        'FLOAT weights, law: for 150 (thorough 3000) f32 and f64 tables per run (few-bit and full-mantissa weights, lengths 2..12) every column\'s threshold is located by bisection on the second word and '
        'TraceFloatLaw.tla checks | mass_k W - n w_k 2^64 | <= tol n W 2^64 in exact integers (tol 2^-38 f64, 2^-18 f32) and that a zero weight is never returned; the column draw itself (rand\'s Uniform<u32>, exactly uniform by rejection) is trusted, its measured widths are only checked to be 2^64/n within 2^-28',
        'rand 0.10.2 Uniform<u32>/Uniform<W> word->value maps are measured with samplers built the same way (Uniform::new(0,n), Uniform::new(0,sum))',
        'wide types are bound through the per-length two-scale (MAX/len <-> Q); the ticket sweep runs only for vectors of small weights',
        'float reconstruction is judged with the declared tolerance 8+4*len units of eps*max(w_i,sum/len)',
    ]
    return o.finish()
