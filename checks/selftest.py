"""./check <ID> --selftest : shows that the binding is not vacuous.  For the property's trace specification,
events of a recorded trace (from the last run of the check, re-recorded if absent) are corrupted one field at
a time and the trace specification must object (TRACE-BAD / TRACE-REJECTED) to the corrupted line."""
import json, random, copy
from common import *

# per property: (trace module, cfg, env builder, glob of trace files in .work/<pid>/traces, {op: [fields]})
PLAN = {
    'C13': ('TraceKolmogorov', 'TraceKolmogorov.cfg', 'kolm.ndjson', {}, {'q': ['cnt', 'x', 'res'], 'mono': ['dir'], 'one': ['multi']}),
    'C01': ('TraceQuantile', 'TraceQuantile.cfg', 'quant.ndjson', {}, {'q': ['cnt', 'x', 'res'], 'mono': ['dir'], 'one': ['multi']}),
    'C09': ('TraceTree', 'TraceTree.cfg', 'tree_0.ndjson', {'M': 255}, {'push': ['len', 'res'], 'pop': ['ret', 'len'], 'update': ['gv'], 'new': ['len']}),
    'C10': ('TraceTree', 'TraceTree.cfg', 'tree_0.ndjson', {'M': 255}, {'sample': ['i']}),
    'C08': ('TraceAlias', 'TraceAlias.cfg', 'alias_0.ndjson', {'M': 255}, {'alias': ['verdict', 'rw']}),
    'C04': ('TraceCtor', 'TraceCtor.cfg', 'ctor_gen.ndjson', {}, {'*': ['verdict']}),
    'C14': ('TraceObject', 'TraceObject.cfg', 'obj_sim.ndjson', {}, {'sample': ['out', 'post'], 'eq': ['res'], 'dbg': ['h']}),
    'C15': ('TraceObject', 'TraceObject.cfg', 'obj_sim.ndjson', {}, {'sample': ['out'], 'roundtrip': ['res']}),
    'C03': ('TraceSupport', 'TraceSupport.cfg', 'sup_0.ndjson', {'RULE': 'support'}, {'call': ['res', 'ocls']}),
    'C05': ('TraceSupport', 'TraceSupport.cfg', 'sup_0.ndjson', {'RULE': 'budget'}, {'call': ['words'], 'block': ['sum_words']}),
    'C02': ('TraceDiscrete', 'TraceDiscrete.cfg', 'disc.ndjson', {}, {'hist': ['counts'], 'ticket': ['out'], 'geo': ['out'], 'bf': ['out'], 'sgeo': ['out']}),
    'C12': ('TraceGeom', 'TraceGeom.cfg', 'geom_0.ndjson', {}, {'lat': ['acc', 'q'], 'rand': ['nrm']}),
    'C06': ('TraceZig', 'TraceZig.cfg', 'zig_0.ndjson', {}, {'*': ['i', 'neg', 'words']}),
    'C07': ('TraceCompose', 'TraceCompose.cfg', 'comp_0.ndjson', {}, {'r1': ['k', 'wb'], 'r1x': ['k', 'wb'], 'r3': ['got'], 'zs': ['r256']}),
    'C11': ('TraceCompose', 'TraceCompose.cfg', 'comp_0.ndjson', {}, {'dir': ['n', 'api_same', 'w']}),
}


# further trace specifications of the same property (run after the main plan)
EXTRA = {
    'C01': [('TraceRejection', 'TraceRejection.cfg', 'beta.ndjson', {}, {'lawc': ['P', 'nonint']}),
            ('TraceBtpe', 'TraceBtpe.cfg', 'mt.ndjson', {}, {'mt': ['T', 'outq']}),
            ('TraceBtpe', 'TraceBtpe.cfg', 'cheng.ndjson', {}, {'cheng': ['T', 'xq']}),
            ('TraceCompose', 'TraceCompose.cfg', 'comp_0.ndjson', {}, {'wire': ['got', 'gcls'], 'msh': ['T', 'words_same']})],
    'C02': [('TraceRejection', 'TraceRejection.cfg', 'rej.ndjson', {}, {'law': ['P', 'other', 'nonint']}),
            ('TraceBtpe', 'TraceBtpe.cfg', 'btpe.ndjson', {}, {'btpe2': ['T', 'y'], 'btpe2h': ['T', 'dy'], 'btpe1': ['cnts'], 'btpet': ['lo', 'hi']}),
            ('TraceBtpe', 'TraceBtpe.cfg', 'h2pe.ndjson', {}, {'h2pe1': ['T', 'out'], 'h2pet': ['lo', 'hi']}),
            ('TraceBtpe', 'TraceBtpe.cfg', 'pd.ndjson', {}, {'pd': ['T', 'k'], 'pdh': ['ap', 'am']}),
            ('TraceBtpe', 'TraceBtpe.cfg', 'rej64.ndjson', {}, {'rej64': ['T', 'x']}),
            ('TraceBtpe', 'TraceBtpe.cfg', 'binv.ndjson', {}, {'binv': ['W1', 'mono']}),
            ('TraceBtpe', 'TraceBtpe.cfg', 'hin.ndjson', {}, {'hin': ['mono', 'one_word', 'dir']}),
            ('TraceBtpe', 'TraceBtpe.cfg', 'geo.ndjson', {}, {'geot': ['T', 'out_ok'], 'geok': ['k'], 'geopi': ['T'], 'geom': ['T', 'out_ok']}),
            ('TraceRejection', 'TraceRejection.cfg', 'knuth.ndjson', {}, {'knuth32': ['oneword', 'P'], 'knuth64': ['p0', 'witness']})],
    'C06': [('TraceZigAcc', 'TraceZigAcc.cfg', 'zigacc.ndjson', {}, {'wedge': ['T', 'inwedge', 'xq'], 'ntail': ['T'], 'etail': ['cnt']})],
    'C10': [('TraceFloatLaw', 'TraceFloatLaw.cfg', 'tree_flaw.ndjson', {}, {'flaw': ['len', 'intervals']})],
    'C08': [('TraceFloatLaw', 'TraceFloatLaw.cfg', 'alias_flaw.ndjson', {}, {'alaw': ['wq']})],
    'C12': [('TraceGeom', 'TraceGeom.cfg', 'geom.ndjson', {}, {'edge': ['last', 'zero_rejected'], 'img': ['got']})],
}


def corrupt(ev, field):
    v = ev.get(field)
    if isinstance(v, bool):
        ev[field] = not v
    elif isinstance(v, int):
        ev[field] = v + (3 if field in ('k',) else 1000003 if field in ('out', 'post', 'h', 'words', 'sum_words') else 1)
    elif isinstance(v, str):
        ev[field] = 'nan' if field == 'gcls' else ('Ok' if v != 'Ok' else 'Panic: selftest')
    elif isinstance(v, list) and v:
        if isinstance(v[0], list):
            # probabilities as 22/21/21 limbs: +64 in the top limb = 2^-16 (above every tolerance used); other nested lists: +1
            w = copy.deepcopy(v); w[0][0] = w[0][0] + (64 if field in ('P',) else 1) if isinstance(w[0][0], int) else w[0][0]; ev[field] = w
        elif isinstance(v[0], int):
            # little-endian base-2^14 limbs (T, cnt, last, p0, xq): corrupt the most significant limb; otherwise the first entry
            w = list(v)
            if field in ('T', 'cnt', 'last', 'p0', 'xq', 'lo', 'hi', 'ap', 'am', 'outq', 'W1'):
                w[-1] += 1
            elif field in ('oneword', 'tail') and len(w) == 3:
                w[0] += 64
            else:
                w[0] += 1
            ev[field] = w
        elif isinstance(v[0], str):
            w = list(v); w[0] = 'nan' if w[0] != 'nan' else 'fin'; ev[field] = w
        else:
            return False
    else:
        return False
    return True


def run(pid, mod):
    if pid not in PLAN:
        print('no selftest plan for', pid); return 2
    # always re-record: a trace left behind by an earlier run may come from a different tree
    log('[selftest] recording a fresh trace with the quick check')
    rc0 = mod.run(pid, 'quick')
    if rc0 == 2:
        return 2
    rc = 0
    for plan in [PLAN[pid]] + EXTRA.get(pid, []):
        rc = max(rc, run_plan(pid, plan))
    return rc


def run_plan(pid, plan):
    module, cfg, fname, env, fields = plan
    wd = workdir(pid, 'traces')
    src = wd / fname
    lines = src.read_text().splitlines()[:60000]
    if module == 'TraceGeom' and fields.get('edge'):
        lines = [x for x in src.read_text().splitlines() if '"op":"edge"' in x or '"op":"img"' in x][:4000]
    rnd = random.Random(seed())
    # independent-event traces: corrupt many lines in one run; stateful traces (TraceTree, TraceObject): one per run
    stateful = module in ('TraceTree',)
    cand = []
    for idx, ln in enumerate(lines):
        e = json.loads(ln)
        op = e.get('op', '*')
        fl = fields.get(op) or fields.get('*')
        if fl:
            for f in fl:
                if f in e:
                    cand.append((idx, f))
    rnd.shuffle(cand)
    picked = cand[:6] if stateful else cand[:60]
    detected = 0; tried = 0; details = []
    env_all = dict(env)
    if module in ('TraceZig', 'TraceZigAcc'):
        env_all['TABLE'] = wd / 'zigtables.ndjson'
    if stateful:
        for (idx, f) in picked:
            L = list(lines); e = json.loads(L[idx])
            if not corrupt(e, f):
                continue
            L[idx] = json.dumps(e); p = wd / 'selftest.ndjson'; p.write_text('\n'.join(L) + '\n')
            r = tlc(module, cfg, pid, 'selftest', trace_mode=True, env=dict(env_all, TRACE=p), timeout=1200, heap='4g')
            tried += 1
            hit = bool(r.rejected) and r.distinct == idx + 1
            detected += hit; details.append({'line': idx + 1, 'field': f, 'rejected_at': r.distinct, 'detected': hit})
    else:
        L = list(lines); marks = {}
        used = set()
        for (idx, f) in picked:
            if idx in used:
                continue
            e = json.loads(L[idx])
            if corrupt(e, f):
                L[idx] = json.dumps(e); marks[idx + 1] = f; used.add(idx)
        p = wd / 'selftest.ndjson'; p.write_text('\n'.join(L) + '\n')
        r = tlc(module, cfg, pid, 'selftest', trace_mode=True, env=dict(env_all, TRACE=p), timeout=2400, heap='6g')
        bad = {ln for (ln, ev) in parse_bad(r.out)}
        tried = len(marks); detected = len(bad & set(marks))
        details = [{'line': k, 'field': v, 'detected': k in bad} for k, v in sorted(marks.items())][:30]
        extra = bad - set(marks)
        if len(extra) > len(lines) * 0.02 + 700:
            log('[selftest] note: %d other lines objected to (known findings of the unchanged tree)' % len(extra))
    print(json.dumps({'property': pid, 'trace_spec': module, 'corruptions_tried': tried, 'detected': detected, 'details': details[:12]}, indent=1))
    # a memo-based specification (TraceObject) can only object when the corrupted key is seen twice
    need = 0.25 if module == 'TraceObject' else 0.6
    ok = tried > 0 and detected >= max(1, int(need * tried))
    print('SELFTEST %s [%s on %s]: %d of %d corrupted fields were objected to -> %s' % (pid, module, fname, detected, tried, 'ok' if ok else 'WEAK'))
    return 0 if ok else 2
