"""C03 / C05: support and budget.  spec/Support.tla (support of every family as a predicate in exact
ordinal arithmetic, documented-infinite exceptions) and spec/Budget.tla (a priori word/time budget);
design level: the exact models of C02/C08/C09/C12 check InSupport in every state (run by those
checks); implementation level: `rdv sup-drive` samples every registry entry under single-word-
adversarial streams (position x boundary lattice x seeds), random-stream blocks and exhaustive 2^24
sweeps of the first word for f32 samplers, and TraceSupport.tla judges every event."""
import json
from common import *


def symptom(ev):
    d = ev.get('detail', {})
    if ev.get('op') in ('sweep', 'block'):
        for k in ('panic', 'nan', 'ninf', 'pinf', 'nonint', 'zerow'):
            if d.get(k, 0):
                return k
        return 'out_of_support'
    res = str(d.get('res'))
    if res.startswith('Panic'):
        return 'panic'
    if res == 'Timeout':
        return 'timeout'
    oc = d.get('ocls') or []
    for k in ('nan', 'ninf', 'pinf'):
        if k in oc:
            return k
    return 'out_of_support'


def run(pid, tier):
    o = Outcome(pid, tier, 'model_checking' if pid == 'C03' else 'exploration')
    build_harness()
    sd = seed()
    thorough = tier == 'thorough'
    wd = workdir(pid, 'traces')
    tr = wd / 'sup.ndjson'
    s = rdv(['sup-drive', '--seed', sd, '--seeds', 2 if not thorough else 12, '--positions', 8, '--block-calls', 20000 if not thorough else 400000,
             '--sweep', (1 if not thorough else 2) if pid == 'C03' else 0, '--limit-ms', 2000, '--out', tr], timeout=14000)
    o.extra['drive'] = s
    o.evaluations = s['calls']
    if s['events'] < 1000:
        raise ToolError('sup-drive produced too few events')
    lines = tr.read_text().splitlines()
    pan = s.get('panicked_entries') or []
    if pan:
        # what panicked under the checking profile (debug assertions, overflow checks) is run again with the semantics of a
        # user's optimised build: the release-mode behaviour (wrong value, hang) is then judged as well
        build_harness(profile='relsem')
        tr2 = wd / 'sup_relsem.ndjson'
        s2 = rdv(['sup-drive', '--seed', sd, '--seeds', 2 if not thorough else 12, '--positions', 8, '--block-calls', 20000 if not thorough else 400000,
                  '--sweep', (1 if not thorough else 2) if pid == 'C03' else 0, '--limit-ms', 2000, '--only-idx', ','.join(str(i) for i in pan[:60]),
                  '--sem', 'release', '--out', tr2], timeout=14000, binary=VERIF / 'harness' / 'target' / 'relsem' / 'rdv')
        o.extra['drive_release_semantics'] = s2
        o.evaluations += s2['calls']
        lines += tr2.read_text().splitlines()
    rule = 'support' if pid == 'C03' else 'budget'
    nbad = 0
    fams = set()
    for bi in range(0, len(lines), 200000):
        part = wd / ('sup_%d.ndjson' % (bi // 200000))
        part.write_text('\n'.join(lines[bi:bi + 200000]) + '\n')
        r = tlc('TraceSupport', 'TraceSupport.cfg', pid, 'trace_%d' % (bi // 200000), trace_mode=True,
                env={'TRACE': part, 'RULE': rule}, timeout=6000, heap='10g')
        require_ok(r, 'TraceSupport')
        if r.rejected or r.violated:
            raise ToolError('support trace not consumed: %s' % (r.rejected or r.violated))
        o.add_tlc(r, 'TraceSupport[%s] batch %d' % (rule, bi // 200000))
        o.traces += len(lines[bi:bi + 200000])
        for (ln, ev) in parse_bad(r.out):
            nbad += 1
            d = ev.get('detail', {})
            sym = symptom(ev)
            wcs = sorted({x.get('wc') for x in d.get('offenders', [])}) if ev.get('op') == 'sweep' else None
            side = None
            if ev.get('fam') == 'Zipf' and sym == 'out_of_support':
                try:
                    n = float(ev.get('label').split('[')[1].split(',')[0])
                    vals = [float(x) for x in (d.get('show') or [])]
                    side = 'above_n' if vals and all(v > n for v in vals) else 'other'
                    if ev.get('op') in ('sweep', 'block'):
                        side = 'above_n' if d.get('nonint', 0) == 0 else 'other'
                except Exception:
                    side = 'other'
            o.finding(kind=rule, op=ev.get('op'), fam=ev.get('fam'), ft=ev.get('ft'), variant=ev.get('variant'), label=ev.get('label'),
                      wc=d.get('wc') if ev.get('op') == 'call' else (','.join(wcs) if wcs else None), symptom=sym, side=side,
                      word=d.get('word'), pos=d.get('pos'), show=d.get('show'), detail=d,
                      signature='%s:%s:%s:%s:%s' % (rule, ev.get('label'), sym, d.get('wc'), ev.get('op')))
    for x in lines[::211]:
        fams.add(json.loads(x)['fam'])
    o.extra['families_in_trace_sample'] = sorted(fams)
    o.distinct = len(lines)
    o.samples.append({'kind': 'sample() call under a single-word-adversarial stream', 'event': {k: v for k, v in json.loads(lines[5]).items()}})
    o.samples.append({'kind': 'random-stream block', 'event': next(json.loads(x) for x in lines if '"op":"block"' in x)})
    sw = [json.loads(x) for x in lines if '"op":"sweep"' in x]
    if sw:
        o.samples.append({'kind': '2^24 sweep aggregate', 'event': sw[0]})
    o.extra['rule'] = ('every registry entry (family x f32/f64 x parameter point of E incl. every internal representation) x position 0..7 x %d boundary words x seeds, '
                       'plus random-stream blocks%s; distinct = events judged by TLC' % (s['lattice_words'], ' and exhaustive 2^24 first-word sweeps for f32 samplers' if pid == 'C03' else ''))
    o.extra['explanation'] = o.extra['rule']
    o.assumptions = [
        'ordinal limbs, integrality and weight-positivity flags are representation changes made by the harness; the support predicate and the budget are TLC\'s',
        'Triangular/Pert bounds widened by 4 ulp of the larger bound are computed by the harness (two IEEE operations, declared)',
        'events that need two independent adversarial words are outside the quantifier (e.g. the all-zero proposal of UnitCircle); single adversarial words are combined with seeded random words at the other positions, so what is reached also depends on VERIF_SEED',
    ]
    if pid == 'C05':
        o.assumptions.append('the mean-words bound is an empirical statement over sampled random streams; a bound on acceptance rates of BTPE/PD/H2PE is not proved')
    # evidence keys for exploration level
    o.extra['distinct_nontrivial'] = len(lines)
    o.extra['evaluations'] = s['calls']
    return o.finish()
