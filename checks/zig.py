"""C06 (tables' structure, loop automaton, code<->algorithm conformance): ZigTables.tla checks the exported
4 x 257 table entries and the 2 tail constants against the structural ziggurat equations in exact limb
arithmetic; TraceZig.tla validates StandardNormal / Exp1 executions (all 256 layers x edge values of u,
random words) against the ZIGNOR automaton of Ziggurat.tla."""
import json
from common import *


def run(pid, tier):
    o = Outcome(pid, tier, 'model_checking')
    build_harness()
    collect(o, pid, tier, toy=True)
    o.assumptions = [
        'table VALUES are compared (2^-30) with spec/ZigRefTable.tla, the ziggurat computed independently from R with mpmath (exp/erfc are not TLC\'s); the accept/reject decision inside the wedge and the tail tests are decided POINTWISE: at 140 wedge anchors (10 layers x 7 positions, both signs for the normal) the accepted fraction of the second word equals (pdf(x) - F[i]) / (F[i+1] - F[i]) to 2^-34 in exact integers with the crate\'s exported F and pdf(x) from spec/ZigAccTable.tla (mpmath), the normal tail accepts with probability exp(-x^2/2) and the exponential tail has P(out <= R + t) = 1 - exp(-t) to 2^-40 at 6 anchors each; NOT decided: the same statements between the anchors',
        'design level: ZigToy.tla counts tickets of the transcribed loop on a rational toy density (4 layers, 48x48 lattice): law holds up to lattice resolution, three wrong designs fail; the real loop is bound by the automaton over observable facts (layer bits, sign bit, words consumed, result region)',
        'fixed-point limbs floor(x*2^40), floor(f*2^45) and ordinals are representation changes made by the harness',
    ]
    return o.finish()


def collect(o, pid, tier, toy=True):
    """tables + (optionally) toy design law + trace conformance; findings go to the given Outcome (C06, or C01 which
    includes the ziggurat's structural conformance as the part of the normal/exponential law this technique reaches)"""
    sd = seed()
    pre = '' if pid == 'C06' else 'zig_'
    wd = workdir(pid, 'traces')
    tab = wd / 'zigtables.ndjson'
    s = rdv(['zig-export', '--out', tab])
    r = tlc('ZigTables', 'ZigTables.cfg', pid, pre + 'tables', workers=1, env={'TABLE': tab}, timeout=3000, heap='4g')
    o.add_tlc(r, 'ZigTables: structural equations and reference values over 4 x 257 entries + 2 constants')
    o.extra['table_entries'] = s['entries']
    if r.violated or 'TABLE-BAD' in r.out:
        i = r.out.find('<<"TABLE-BAD"')
        detail = r.out[i:i + 3000] if i >= 0 else r.trace_text[:2000]
        o.finding(kind='tables', detail=detail, signature='tables:' + detail[:120])
    else:
        require_ok(r, 'ZigTables')
    # sub-claim 1: the design of the loop samples a (toy, rational) density exactly up to lattice resolution;
    # deliberately wrong designs must fail the same check (otherwise the check would be vacuous)
    for variant in (('code', 'rect_uses_xi', 'wedge_index_off', 'no_x0_convention') if toy else ()):
        rz = tlc('ZigToyLaw', 'ZigToy_%s.cfg' % variant, pid, pre + 'toy_' + variant, workers=2, timeout=1200, heap='3g')
        holds = 'Assumption' not in rz.out and 'is false' not in rz.out
        if 'ZIGTOY' not in rz.out:
            raise ToolError('ZigToyLaw did not evaluate (%s): %s' % (variant, rz.out[-800:]))
        o.add_tlc(rz, 'ZigToy design law, variant %s: %s' % (variant, 'holds' if holds else 'fails'))
        if variant == 'code' and not holds:
            o.finding(kind='design', invariant='ZigToy LawHolds', detail=rz.out[-2500:], signature='design:zigtoy')
        if variant != 'code' and holds:
            raise ToolError('ZigToy: wrong design %s passes the law check (vacuous)' % variant)
    tr = wd / 'zig.ndjson'
    s2 = rdv(['zig-drive', '--seed', sd, '--random', 20000 if tier == 'quick' else 400000, '--out', tr])
    lines = tr.read_text().splitlines()
    for bi in range(0, len(lines), 150000):
        part = wd / ('zig_%d.ndjson' % (bi // 150000))
        part.write_text('\n'.join(lines[bi:bi + 150000]) + '\n')
        rr = tlc('TraceZig', 'TraceZig.cfg', pid, pre + 'trace_%d' % (bi // 150000), trace_mode=True, env={'TRACE': part, 'TABLE': tab}, timeout=3000, heap='8g')
        require_ok(rr, 'TraceZig')
        if rr.rejected or rr.violated:
            raise ToolError('zig trace not consumed: %s' % (rr.rejected or rr.violated))
        o.add_tlc(rr, 'TraceZig batch %d' % (bi // 150000))
        o.traces += len(lines[bi:bi + 150000])
        for (ln, ev) in parse_bad(rr.out):
            o.finding(kind='zig', dist=ev.get('dist'), layer_class='base' if ev.get('i') == 0 else 'layer', words=ev.get('words'), tag=ev.get('tag'),
                      res=str(ev.get('res'))[:80], f32ok=ev.get('f32ok'), event=ev,
                      signature='zig:%s:%s:%s:%s:%s' % (ev.get('dist'), 'base' if ev.get('i') == 0 else 'layer', min(ev.get('words', 0), 4), ev.get('f32ok'), str(ev.get('res'))[:30]))
    # the two comparisons with the density: wedge acceptance fraction and tail laws, measured at the anchors of ZigAccTable
    za = wd / 'zigacc.ndjson'
    ra = tlc('MCZigAcc', 'MCZigAcc.cfg', pid, pre + 'acc_cases', workers=1, timeout=1200, heap='2g',
             pipe_to=[str(RDV), 'zigacc-drive', '--out', str(za)])
    require_ok(ra, 'MCZigAcc')
    sa = json.loads(ra.consumer_out.strip().splitlines()[-1])
    if sa['events'] < 200:
        raise ToolError('zigacc-drive: too few events: %s' % sa)
    rb = tlc('TraceZigAcc', 'TraceZigAcc.cfg', pid, pre + 'acc_trace', trace_mode=True, env={'TRACE': za, 'TABLE': tab}, timeout=1200, heap='4g')
    require_ok(rb, 'TraceZigAcc')
    if rb.rejected or rb.violated:
        raise ToolError('zigacc trace not consumed: %s' % (rb.rejected or rb.violated))
    o.add_tlc(rb, 'TraceZigAcc: %d measured acceptance counts (wedge, normal tail, exponential tail)' % sa['events'])
    zl = za.read_text().splitlines()
    o.traces += len(zl)
    o.extra['zigacc_drive'] = sa
    for (ln, ev) in parse_bad(rb.out):
        o.finding(kind='zigacc', op=ev.get('op'), tab=ev.get('tab'), i=ev.get('i'), k=ev.get('k'), neg=ev.get('neg'), res=str(ev.get('res'))[:80], show=ev.get('show'), event=ev,
                  signature='zigacc:%s:%s:%s:%s' % (ev.get('op'), ev.get('tab'), ev.get('i'), ev.get('neg')))
    o.samples.append({'kind': 'measured wedge acceptance count', 'event': json.loads(zl[10])})
    evs = [json.loads(x) for x in lines[::37]]
    single = sum(1 for e in evs if e.get('single'))
    if single == 0:
        raise ToolError('no single-iteration event (vacuous)')
    o.extra['sampled_events_single_iteration_share'] = round(single / max(len(evs), 1), 3)
    o.samples.append({'kind': 'table entry (exported through the cfg hook)', 'entry': json.loads(tab.read_text().splitlines()[5])})
    o.samples.append({'kind': 'scripted ziggurat call', 'event': json.loads(lines[100])})

