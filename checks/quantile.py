"""C01, inverse-CDF samplers (Cauchy, Pareto, Weibull, Gumbel, Frechet, Triangular; f32 and f64): spec/Quantile.tla
states the law of a one-word sampler as a ticket count, spec/QuantileTable.tla holds the documented CDFs at 9 anchors
(2^-20 ... 1-2^-20) for 52 dyadic parameter points; TLC prints the cases (MCQuantile), `rdv quant-drive` counts
{w : S(w) <= x} on the real samplers (exact 2^24 sweep for f32, witnessed bisection for f64) and TraceQuantile.tla
compares every count with the table and checks the monotonicity samples and the one-word consumption."""
import json
from common import *


def collect(o, pid, tier):
    sd = seed()
    wd = workdir(pid, 'traces')
    tr = wd / 'quant.ndjson'
    r = tlc('MCQuantile', 'MCQuantile.cfg', pid, 'quant_cases', workers=1, timeout=1800, heap='2g', env={'TIER': tier},
            pipe_to=[str(RDV), 'quant-drive', '--seed', str(sd), '--out', str(tr)])
    require_ok(r, 'MCQuantile')
    s = json.loads(r.consumer_out.strip().splitlines()[-1])
    if s['cases'] < 20 or s['events'] < 400:
        raise ToolError('quant-drive: too few cases/events: %s' % s)
    o.add_tlc(r, 'MCQuantile: table sanity (ASSUME TableOK) and case generation')
    o.extra['quantile_drive'] = s
    o.evaluations += s['calls']
    rr = tlc('TraceQuantile', 'TraceQuantile.cfg', pid, 'quant_trace', trace_mode=True, env={'TRACE': tr, 'TIER': tier}, timeout=1200, heap='4g')
    require_ok(rr, 'TraceQuantile')
    if rr.rejected or rr.violated:
        raise ToolError('quantile trace not consumed: %s' % (rr.rejected or rr.violated))
    o.add_tlc(rr, 'TraceQuantile: %d events' % s['events'])
    lines = tr.read_text().splitlines()
    o.traces += len(lines)
    for (ln, ev) in parse_bad(rr.out):
        o.finding(kind='quantile', op=ev.get('op'), fam=ev.get('fam'), ft=ev.get('ft'), params=ev.get('params'), anchor=ev.get('anchor'), x=ev.get('x'),
                  res=str(ev.get('res'))[:80], show=ev.get('show'), event={k: v for k, v in ev.items() if k not in ('ords', 'words')},
                  signature='quantile:%s:%s:%s:%s:%s' % (ev.get('op'), ev.get('fam'), ev.get('ft'), ev.get('params'), ev.get('anchor')))
    evs = [json.loads(x) for x in lines]
    o.extra['quantile_events'] = {k: sum(1 for e in evs if e['op'] == k) for k in ('q', 'mono', 'one')}
    o.extra['quantile_families'] = sorted({e['fam'] for e in evs})
    o.samples.append({'kind': 'anchor count, f32 exact sweep', 'event': next(e for e in evs if e['op'] == 'q' and e['ft'] == 'f32')})
    o.samples.append({'kind': 'anchor count, f64 witnessed bisection', 'event': next(e for e in evs if e['op'] == 'q' and e['ft'] == 'f64' and e['anchor'] == 5)})
