"""C04: constructors.  spec/FloatLine.tla + Constructors.tla (documented verdict tables over the
order abstraction of the arguments); MCCtor.tla enumerates the complete lattice cross product per
constructor (design-level totality / NaN rejection) and generates the cases; the real constructors
are called for f32 and f64 (and u64 arguments) under catch_unwind, every call is logged with its
abstracted arguments and judged by TraceCtor.tla; a second trace comes from fuzzed bit patterns."""
import json
from common import *


def classify(o, ev, src):
    args = ev.get('args') or []
    extra = {}
    if ev.get('ctor') == 'Hypergeometric::new' and args and isinstance(args[0], dict):
        extra['n_class'] = 'N>=2^63' if args[0].get('r', 0) >= 16 else 'N<2^63'
    allowed = sorted(ev.get('allowed') or [])
    o.finding(kind='ctor', ctor=ev.get('ctor'), ft=ev.get('ft'), verdict=ev.get('verdict'), allowed=allowed, allowed_str=','.join(allowed),
              acc=ev.get('acc'), show=ev.get('show'), src=src, args=args, **extra,
              signature='ctor:%s:%s:%s:%s' % (ev.get('ctor'), ev.get('ft'), ev.get('verdict'), ','.join(allowed)))


def run(pid, tier):
    o = Outcome(pid, tier, 'model_checking')
    build_harness()
    sd = seed()
    thorough = tier == 'thorough'
    wd = workdir(pid, 'traces')
    gen = wd / 'ctor_gen.ndjson'
    r = tlc('MCCtor', 'MCCtor.cfg', pid, 'mc', workers=8, timeout=3000, heap='6g',
            pipe_to=[str(RDV), 'ctor-replay', '--out', str(gen)])
    require_ok(r, 'MCCtor')
    o.add_tlc(r, 'MCCtor: full lattice cross product per constructor')
    if r.violated:
        # the verdict table is the oracle: an inconsistency in it is a defect of the machinery
        raise ToolError('MCCtor: table invariant %s violated\n%s' % (r.violated, r.trace_text[:2000]))
    s = json.loads(r.consumer_out.strip().splitlines()[-1])
    if s['cases'] < 30000:
        raise ToolError('MCCtor generated only %d cases' % s['cases'])
    o.extra['generated_cases'] = s['cases']
    o.extra['hypergeometric_watchdog_timeouts'] = s['hypergeometric_timeouts']
    fz = wd / 'ctor_fuzz.ndjson'
    s2 = rdv(['ctor-fuzz', '--seed', sd, '--n', 20000 if not thorough else 1500000, '--out', fz])
    ctors_seen = set()
    for name, path, n in (('generated', gen, s['events']), ('fuzz', fz, s2['events'])):
        # batches of <= 150k events
        lines = path.read_text().splitlines()
        for bi in range(0, len(lines), 150000):
            part = wd / ('%s_%d.ndjson' % (name, bi // 150000))
            part.write_text('\n'.join(lines[bi:bi + 150000]) + '\n')
            rr = tlc('TraceCtor', 'TraceCtor.cfg', pid, 'trace_%s_%d' % (name, bi // 150000), trace_mode=True,
                     env={'TRACE': part}, timeout=3000, heap='8g')
            require_ok(rr, 'TraceCtor ' + name)
            if rr.rejected or rr.violated:
                raise ToolError('ctor trace not consumed: %s' % (rr.rejected or rr.violated))
            o.add_tlc(rr, 'TraceCtor %s batch %d' % (name, bi // 150000))
            o.traces += len(lines[bi:bi + 150000])
            for (ln, ev) in parse_bad(rr.out):
                classify(o, ev, name)
        for x in lines[::997][:400]:
            ctors_seen.add(json.loads(x)['ctor'])
        if len(o.samples) < 4:
            o.samples.append({'kind': name + ' constructor call (real code -> TraceCtor)', 'event': json.loads(lines[len(lines) // 3])})
            o.samples.append({'kind': name + ' constructor call (real code -> TraceCtor)', 'event': json.loads(lines[-1])})
    o.extra['constructors_seen_in_sample'] = sorted(ctors_seen)
    # weighted constructors: WeightedTreeIndex::{new,push,update} and WeightedAliasIndex::new verdicts (and the
    # accessors len/get) through the C09 / C08 specifications
    wide = 'u16,i16,u32,i32,u64,i64,u128,i128,usize'
    for gi, (m, types, ops, maxlen, small, near) in enumerate([(255, 'u8', 2500, 12, 3, 6), (127, 'i8', 2500, 12, 3, 6),
                                                              (255, wide, 300, 6, 2, 6), (255, 'f32,f64', 600, 8, 3, 0)]):
        tr = wd / ('wtree_%d.ndjson' % gi)
        s3 = rdv(['tree-drive', '--m', m, '--seed', sd + 100 + gi, '--ops', ops if not thorough else ops * 8, '--maxlen', maxlen,
                  '--small', small, '--near', near, '--types', types, '--out', tr])
        rr = tlc('TraceTree', 'TraceTree.cfg', pid, 'wtree_%d' % gi, trace_mode=True, env={'TRACE': tr, 'M': m}, timeout=3000, heap='4g')
        require_ok(rr, 'TraceTree (C04)')
        o.add_tlc(rr, 'TraceTree (weighted constructors) M=%d %s' % (m, types))
        tl = tr.read_text().splitlines()
        if rr.rejected or rr.violated:
            kline = rr.distinct
            ev = json.loads(tl[kline - 1]) if 0 < kline <= len(tl) else {}
            o.traces += max(kline - 1, 0)
            if ev.get('op') in ('new', 'push', 'update'):
                o.finding(kind='weighted', ctor='WeightedTreeIndex::' + ev.get('op'), types=types, verdict=str(ev.get('res'))[:60], event=ev,
                          signature='wtree:%s:%s:%s' % (types, ev.get('op'), str(ev.get('res'))[:40]))
            else:
                log('[note] weighted-tree trace stops at a %s event (C09/C10 business)' % ev.get('op'))
        else:
            o.traces += s3['events']
    # WeightedAliasIndex::new on every model vector (TLC-generated, all 13 weight types): verdicts and panics
    for m in (255, 127):
        ra = tlc('MCAlias', 'MCAlias.cfg', pid, 'walias_mc_%d' % m, workers=4, env={'M': m, 'MAXLEN': 4, 'EMIT': 1}, timeout=3000, heap='4g',
                 pipe_to=[str(RDV), 'alias-replay', '--m', str(m), '--no-sweep'])
        require_ok(ra, 'MCAlias (C04)')
        o.add_tlc(ra, 'MCAlias M=%d len<=4: vectors replayed for constructor verdicts' % m)
        sa = json.loads(ra.consumer_out.strip().splitlines()[-1])
        o.traces += sa['runs']
        for mm in sa['mismatches']:
            if mm['what'] in ('verdict', 'new panics'):
                o.finding(kind='weighted', ctor='WeightedAliasIndex::new', types=mm['type'], verdict=mm['got'][:80], want=mm['want'][:60], behaviour=mm['behaviour'],
                          signature='walias-replay:%s:%s:%s' % (mm['type'], mm['what'], mm['got'][:40]))
    for gi, (m, types, n) in enumerate([(255, 'u8', 400), (127, 'i8', 400), (1073741824, 'u32,i64,u128,usize', 100), (255, 'f32,f64', 600)]):
        tr = wd / ('walias_%d.ndjson' % gi)
        s4 = rdv(['alias-drive', '--m', m, '--seed', sd + 200 + gi, '--vectors', n if not thorough else n * 8, '--maxlen', 400, '--types', types, '--out', tr])
        rr = tlc('TraceAlias', 'TraceAlias.cfg', pid, 'walias_%d' % gi, trace_mode=True, env={'TRACE': tr, 'M': m}, timeout=3000, heap='4g')
        require_ok(rr, 'TraceAlias (C04)')
        if rr.rejected or rr.violated:
            raise ToolError('alias trace not consumed')
        o.add_tlc(rr, 'TraceAlias (weighted constructors) M=%d %s' % (m, types))
        o.traces += s4['events']
        for (ln, ev) in parse_bad(rr.out):
            v = str(ev.get('verdict'))
            want = ev.get('want') or ''
            if v.split(' @ ')[0] != want and not (v == 'Ok' and want == ''):     # verdict (or panic) differs: C04; a reconstruction error alone is C08
                o.finding(kind='weighted', ctor='WeightedAliasIndex::new', types=ev.get('ty'), verdict=v.split(' @ ')[0][:80], want=want, event=ev,
                          signature='walias:%s:%s' % (ev.get('ty'), v.split(' @ ')[0][:60]))
    o.assumptions = [
        'the verdict tables are written from the doc comments (DESIGN Appendix A); regions marked ANY are unspecified and only judged for panics',
        'Hypergeometric::new runs under a 300 ms watchdog; a construction that does not return in time is logged as Timeout and is admissible only for N > 2^53 (construction time is not part of C04)',
        'Pert::with_mode lattice stays below 1e15 in magnitude (overflow of the internal range/shape products is not explored); Pert::with_mean only on the dyadic sub-lattice where the derived mode is exact',
        'WeightedAliasIndex::new and WeightedTreeIndex::{new,push,update} verdicts are judged through the C08/C09 specifications (TraceAlias, TraceTree) on recorded random calls',
    ]
    return o.finish()
