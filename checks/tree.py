"""C09 / C10: WeightedTreeIndex.  spec/WeightedTree.tla decided by
  (1) exhaustive TLC runs of MCTree (full reachable graph over the alphabet, every invariant),
  (2) spec -> impl: every TreeGen behaviour replayed on the real type for all 13 weight types,
      all sampling targets swept in every replayed state,
  (3) impl -> spec: random histories recorded from the real type and validated by TraceTree."""
import json
from common import *

ACTIONS = ['New', 'Push', 'Pop', 'Update']


def run(pid, tier):
    assert pid in ('C09', 'C10')
    o = Outcome(pid, tier, 'model_checking')
    build_harness()
    sd = seed()
    thorough = tier == 'thorough'

    # (1) design level -------------------------------------------------------
    mc = [(255, 7 if thorough else 6, 64), (127, 6 if thorough else 5, 64), (7, 7 if thorough else 6, 64)]
    if thorough:
        mc.append((255, 8, 16)); mc.append((127, 8, 16)); mc.append((7, 9, 64))
    for (m, maxlen, lawtotal) in mc:
        r = tlc('MCTree', 'MCTree.cfg', pid, 'mc_m%d_l%d' % (m, maxlen), workers=8, coverage=True,
                env={'M': m, 'MAXLEN': maxlen, 'LAWTOTAL': lawtotal}, timeout=3000)
        require_ok(r, 'MCTree M=%d' % m)
        o.add_tlc(r, 'MCTree M=%d MaxLen=%d' % (m, maxlen))
        if r.violated:
            # the design itself violates an invariant: with the model transcribed from the code this
            # is a finding about the algorithm; attribute by invariant
            prop = 'C10' if r.violated in ('LawSmall', 'PanicSmall') else 'C09'
            if prop == pid:
                o.finding(kind='design', invariant=r.violated, m=m, detail=r.trace_text[:3000],
                          signature='design:' + r.violated)
        else:
            vacuity(r, ACTIONS, 'MCTree M=%d' % m)

    # (2) spec -> impl -------------------------------------------------------
    gens = [(255, 4, None), (127, 4, None), (255, 12, 2500 if not thorough else 20000),
            (127, 12, 1500 if not thorough else 10000)]
    if thorough:
        gens += [(255, 5, None), (127, 5, None)]     # depth 6 (8.8 million behaviours with their histories) exhausts TLC's heap after half an hour: not run
    nbeh = 0
    for (m, depth, simnum) in gens:
        tag = 'gen_m%d_d%d%s' % (m, depth, '_sim' if simnum else '')
        r = tlc('TreeGen', 'TreeGen.cfg', pid, tag, workers=1 if simnum else 6,
                env={'M': m, 'DEPTH': depth}, sim=(simnum, depth + 1) if simnum else None,
                seed_arg=sd if simnum else None, timeout=7200,
                pipe_to=[str(RDV), 'tree-replay', '--m', str(m), '--prop', pid])
        require_ok(r, 'TreeGen ' + tag)
        o.add_tlc(r, 'TreeGen M=%d depth=%d%s' % (m, depth, ' simulate num=%d' % simnum if simnum else ' exhaustive'))
        s = json.loads(r.consumer_out.strip().splitlines()[-1])
        if s['tool_errors']:
            raise ToolError('tree-replay: %s' % s['tool_errors'][:3])
        if s['behaviours'] == 0:
            raise ToolError('tree-replay %s: no behaviour generated' % tag)
        nbeh += s['behaviours']
        o.traces += s['runs']
        o.extra.setdefault('replay', []).append({k: s[k] for k in ('m', 'behaviours', 'runs', 'steps', 'skipped_unrepresentable', 'sweeps', 'sweep_targets', 'mismatch_count')})
        if s.get('sample') and len(o.samples) < 3:
            o.samples.append({'kind': 'replayed behaviour (TLC -> real type)', 'm': m, 'steps': s['sample']})
        for mm in s['mismatches']:
            if mm['property'] == pid:
                o.finding(kind='replay', type=mm['type'], what=mm['what'].split('(')[0].split(' at target')[0], got=mm['got'][:200],
                          want=mm['want'][:200], m=m, behaviour=mm['behaviour'], step=mm['step'],
                          signature='replay:%s:%s' % (mm['type'], mm['what'].split('(')[0].split(' at target')[0]))
    if pid == 'C10' and sum(x['sweeps'] for x in o.extra['replay']) == 0:
        raise ToolError('no target sweep was run')

    # (3) impl -> spec -------------------------------------------------------
    wd = workdir(pid, 'traces')
    wide = 'u16,i16,u32,i32,u64,i64,u128,i128,usize'
    groups = [
        # (M, types, ops per type, maxlen, small, near)
        (255, 'u8', 4000 if not thorough else 40000, 40, 3, 6),
        (255, wide, 500 if not thorough else 4000, 6, 2, 6),
        (255, 'f32,f64', 800 if not thorough else 6000, 12, 3, 0),
        (127, 'i8', 3000 if not thorough else 30000, 30, 3, 6),
        (65535, 'u16', 2000 if not thorough else 20000, 200, 400, 300),
        (32767, 'i16', 2000 if not thorough else 20000, 200, 200, 300),
        (1073741824, 'u32,i32,u64,i64,u128,i128,usize,f32,f64', 1200 if not thorough else 8000, 300, 1000, 1000),
    ]
    for gi, (m, types, ops, maxlen, small, near) in enumerate(groups):
        tr = wd / ('tree_%d.ndjson' % gi)
        s = rdv(['tree-drive', '--m', m, '--seed', sd + gi, '--ops', ops, '--maxlen', maxlen,
                 '--small', small, '--near', near, '--types', types, '--out', tr])
        if s['events'] == 0:
            raise ToolError('tree-drive produced no events for ' + types)
        r = tlc('TraceTree', 'TraceTree.cfg', pid, 'trace_%d' % gi, trace_mode=True,
                env={'TRACE': tr, 'M': m}, timeout=3000, heap='4g')
        require_ok(r, 'TraceTree group %d' % gi)
        o.add_tlc(r, 'TraceTree M=%d types=%s' % (m, types))
        lines = tr.read_text().splitlines()
        if len(o.samples) < 6:
            o.samples.append({'kind': 'recorded events (real type -> TraceTree)', 'm': m, 'types': types,
                              'events': [json.loads(x) for x in lines[:3]]})
        if r.rejected or r.violated:
            # the first unmatched event decides which property is concerned
            k = r.distinct  # states = matched lines + 1 -> index of first unmatched (1-based) is r.distinct
            ev = json.loads(lines[k - 1]) if 0 < k <= len(lines) else {}
            prop = 'C10' if ev.get('op') == 'sample' else 'C09'
            o.traces += max(k - 1, 0)
            if prop == pid:
                o.finding(kind='trace', types=types, m=m, op=ev.get('op'), res=str(ev.get('res'))[:60], event=ev, line=k,
                          trace=str(tr), invariant=r.violated,
                          signature='trace:%s:%s:%s' % (types, ev.get('op'), str(ev.get('res'))[:40]))
            else:
                log('[note] trace group %d stops at a %s-event (not judged by %s); %d events unexamined' % (gi, prop, pid, len(lines) - k))
        else:
            o.traces += s['events']
    # float weights, design level: a minifloat (4 significant bits, round-to-nearest-even) version of the tree;
    # TLC searches every tree of <= 4 weights and every representable target for an assertion failure
    if pid == 'C10':
        rf = tlc('FloatTree', 'FloatTree.cfg', pid, 'floattree', workers=6, timeout=3000, heap='6g')
        o.add_tlc(rf, 'FloatTree (minifloat SIG=4, len<=4): search for a target that trips the post-condition assertion')
        if rf.violated:
            o.finding(kind='design-float', ty='minifloat', op='design', res_class='Panic: assertion failed: target_weight < self.get(index)',
                      detail=rf.trace_text[:1500], signature='design-float:assert')
        else:
            require_ok(rf, 'FloatTree')
    # float weights that are not small integers: rule-only events (C10)
    if pid == 'C10':
        tr = wd / 'tree_floats.ndjson'
        s = rdv(['tree-drive-floats', '--seed', sd, '--trees', 2500 if not thorough else 40000, '--out', tr])
        r = tlc('TraceTree', 'TraceTree.cfg', pid, 'trace_floats', trace_mode=True, env={'TRACE': tr, 'M': 255},
                timeout=3000, heap='4g')
        require_ok(r, 'TraceTree floats')
        if r.rejected or r.violated:
            raise ToolError('float trace not consumed: %s' % (r.rejected or r.violated))
        o.add_tlc(r, 'TraceTree float adversarial shapes')
        o.traces += s['events']
        for (ln, ev) in parse_bad(r.out):
            res = str(ev.get('res'))
            o.finding(kind='trace', op='fsample', ty=ev.get('ty'), wc=ev.get('wc'), res_class=res.split(' @ ')[0], event=ev,
                      signature='fsample:%s:%s' % (ev.get('ty'), res.split(' @ ')[0]))
        o.samples.append({'kind': 'float tree sample event', 'event': json.loads(tr.read_text().splitlines()[0])})
        # exact induced law with float weights: interval lengths of the one-word map word -> index against weight / total
        fl = wd / 'tree_flaw.ndjson'
        s2 = rdv(['ftree-drive', '--seed', sd, '--count', 300 if not thorough else 5000, '--out', fl])
        r2 = tlc('TraceFloatLaw', 'TraceFloatLaw.cfg', pid, 'trace_flaw', trace_mode=True, env={'TRACE': fl}, timeout=3000, heap='4g')
        require_ok(r2, 'TraceFloatLaw')
        if r2.rejected or r2.violated:
            raise ToolError('float law trace not consumed: %s' % (r2.rejected or r2.violated))
        o.add_tlc(r2, 'TraceFloatLaw: %d float trees (exact interval lengths vs weight / total)' % s2['events'])
        o.traces += s2['events']
        for (ln, ev) in parse_bad(r2.out):
            res = str(ev.get('res'))
            if res.startswith('Panic'):
                o.finding(kind='trace', op='fsample', ty=ev.get('ft'), wc=None, res_class=res.split(' @ ')[0], event={k: v for k, v in ev.items() if k not in ('len', 'wq')},
                          signature='fsample:%s:%s' % (ev.get('ft'), res.split(' @ ')[0]))
            else:
                # label only: which clause of the rule the event misses (a zero weight with a non-empty interval, or the proportionality itself)
                zr = [k for k in range(len(ev.get('wq', []))) if ev['wq'][k] == [0] and ev['len'][k] != [0]]
                tol = (64 - 19) if ev.get('ft') == 'f32' else (64 - 40)
                def val(l):
                    return sum(x << (14 * i) for i, x in enumerate(l))
                W = sum(val(w) for w in ev.get('wq', []))
                other = [k for k in range(len(ev.get('wq', []))) if k not in zr and abs(val(ev["len"][k]) * W - (val(ev["wq"][k]) << 64)) > (W << tol)] if W else []
                # after a history the subtotals carry rounding residues of EARLIER totals (known finding); a fresh tree has no such excuse
                sym = 'zero-weight-residue' if zr and not other else ('history-residue' if ev.get('hist') else 'law')
                o.finding(kind='float-law', ty=ev.get('ft'), symptom=sym, hist=ev.get('hist'), show=ev.get('show'),
                          zero_weight_indices=zr, event={k: v for k, v in ev.items() if k not in ('len', 'wq')},
                          signature='float-law:%s:%s' % (ev.get('ft'), sym))
        o.samples.append({'kind': 'float tree law event', 'event': json.loads(fl.read_text().splitlines()[0])})
    o.assumptions = [
        'rand 0.10.2 word->value maps (random_range) are measured on a clone of the scripted stream, not re-modelled',
        'two-scale embedding of model weights into wide integer types (DESIGN 2.2) is sound for the alphabets used (len<=6, small<=2 for M=255; sums of small weights stay below M/2)',
        'exhaustive results hold for the stated alphabets and MaxLen; longer histories are trace-validated samples',
    ]
    o.extra['behaviours_replayed'] = nbeh
    return o.finish()
