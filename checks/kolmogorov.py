"""C13 (pointwise form): for the f32 instantiation of Cauchy, Pareto, Weibull, Gumbel, Frechet, Triangular every one of
the 2^24 values of the uniform draw is pushed through sample(); spec/Kolmogorov.tla states |Fn(x) - F(x)| <=
2^-24 (1.5 + 8 sup|x f(x)|) at the anchors of spec/KolmogorovTable.tla (f32 values x from F = 2^-20 to 1 - 2^-20,
52 dyadic parameter points; F and the bound are mpmath constants), Fn(x) is an exact count, TraceKolmogorov.tla judges."""
import json
from common import *


def run(pid, tier):
    o = Outcome(pid, tier, 'model_checking')
    build_harness()
    sd = seed()
    wd = workdir(pid, 'traces')
    tr = wd / 'kolm.ndjson'
    r = tlc('MCKolmogorov', 'MCKolmogorov.cfg', pid, 'cases', workers=1, timeout=1800, heap='2g', env={'TIER': tier},
            pipe_to=[str(RDV), 'quant-drive', '--seed', str(sd), '--only-ft', 'f32', '--out', str(tr)])
    require_ok(r, 'MCKolmogorov')
    s = json.loads(r.consumer_out.strip().splitlines()[-1])
    if s['cases'] < 40 or s['events'] < 900:
        raise ToolError('quant-drive: too few cases/events: %s' % s)
    o.add_tlc(r, 'MCKolmogorov: table sanity (ASSUME KTableOK) and case generation')
    o.extra['drive'] = s
    o.evaluations = s['calls']
    rr = tlc('TraceKolmogorov', 'TraceKolmogorov.cfg', pid, 'trace', trace_mode=True, env={'TRACE': tr, 'TIER': tier}, timeout=1200, heap='4g')
    require_ok(rr, 'TraceKolmogorov')
    if rr.rejected or rr.violated:
        raise ToolError('kolmogorov trace not consumed: %s' % (rr.rejected or rr.violated))
    o.add_tlc(rr, 'TraceKolmogorov: %d events' % s['events'])
    lines = tr.read_text().splitlines()
    o.traces += len(lines)
    for (ln, ev) in parse_bad(rr.out):
        o.finding(kind='kolmogorov', op=ev.get('op'), fam=ev.get('fam'), ft=ev.get('ft'), params=ev.get('params'), anchor=ev.get('anchor'), x=ev.get('x'),
                  res=str(ev.get('res'))[:80], show=ev.get('show'), event={k: v for k, v in ev.items() if k not in ('ords', 'words')},
                  signature='kolmogorov:%s:%s:%s:%s' % (ev.get('op'), ev.get('fam'), ev.get('params'), ev.get('anchor')))
    evs = [json.loads(x) for x in lines]
    o.extra['events_by_kind'] = {k: sum(1 for e in evs if e['op'] == k) for k in ('q', 'mono', 'one')}
    o.extra['families'] = sorted({e['fam'] for e in evs})
    o.extra['explanation'] = 'every one of the 2^24 first-word high-bit patterns x 42 parameter points; %d anchor counts judged' % o.extra['events_by_kind']['q']
    o.samples.append({'kind': 'exact anchor count over 2^24 draws', 'event': next(e for e in evs if e['op'] == 'q')})
    o.samples.append({'kind': 'exact anchor count over 2^24 draws', 'event': [e for e in evs if e['op'] == 'q'][len(evs) // 3]})
    o.assumptions = [
        'POINTWISE: |Fn(x) - F(x)| <= bound is decided at the table\'s anchors (<= 23 per case, f32 values from F = 2^-20 to 1 - 2^-20); the supremum over all x (the Kolmogorov distance proper) is not decided',
        'F(x) and sup|x f(x)| are mpmath constants of spec/KolmogorovTable.tla (tools/gen_kolmogorov_table.py, 60 digits, sup located on a 4000-point grid in p-space); TLC checks that each row is a CDF along its anchors',
        'the support part of C13 (every reachable output inside the support) is decided by C03\'s 2^24 sweeps',
        'one-word consumption is checked on 2000 random words and on all 2^24 patterns (Gumbel/Frechet redraw on the single pattern u = 1)',
    ]
    return o.finish()
