"""C02 (exact regimes): spec/DiscreteExact.tla - ticket models of BINV (+ flip, constants) and HIN
(+ both symmetry reductions) checked exhaustively by TLC over every ticket (Law, InSupport incl. the
slack ticket, Budget, Termination); the real samplers are run with one scripted word per ticket and
TraceDiscrete.tla compares full histograms with the documented pmf numerators it computes itself,
judges breakpoint tickets for larger parameters, and validates Geometric / StandardGeometric on
scripted draw classes."""
import json
from common import *


def run(pid, tier):
    o = Outcome(pid, tier, 'model_checking')
    build_harness()
    sd = seed()
    thorough = tier == 'thorough'
    r = tlc('MCDiscrete', 'MCDiscrete.cfg', pid, 'mc', workers=8, env={'TIER': tier}, timeout=7200, heap='10g', coverage=False)
    require_ok(r, 'MCDiscrete')
    o.add_tlc(r, 'DiscreteExact: every ticket of BINV / HIN models (%s tier constants)' % tier)
    if r.violated:
        o.finding(kind='design', invariant=r.violated, detail=r.trace_text[:3000], signature='design:' + r.violated)
    wd = workdir(pid, 'traces')
    tr = wd / 'disc.ndjson'
    s = rdv(['disc-drive', '--seed', sd, '--out', tr] + (['--thorough'] if thorough else []), timeout=7200)
    o.extra['drive'] = s
    lines = tr.read_text().splitlines()
    rr = tlc('TraceDiscrete', 'TraceDiscrete.cfg', pid, 'trace', trace_mode=True, env={'TRACE': tr}, timeout=7200, heap='8g')
    require_ok(rr, 'TraceDiscrete')
    if rr.rejected or rr.violated:
        raise ToolError('discrete trace not consumed: %s' % (rr.rejected or rr.violated))
    o.add_tlc(rr, 'TraceDiscrete')
    o.traces += len(lines)
    evs = [json.loads(x) for x in lines]
    judged = sum(1 for e in evs if e['op'] not in ('hist', 'ticket', 'zipf0') or e.get('guard_ok'))
    outside = sum(1 for e in evs if e['op'] in ('hist', 'ticket', 'zipf0') and not e.get('guard_ok'))
    o.extra['events_by_kind'] = {k: sum(1 for e in evs if e['op'] == k) for k in ('hist', 'ticket', 'zipf0', 'geo', 'bf', 'bft', 'sgeo')}
    o.extra['outside_exact_regime_not_judged'] = outside
    if judged == 0 or sum(1 for e in evs if e['op'] == 'hist' and e.get('guard_ok')) == 0:
        raise ToolError('no event in the exact regime (vacuous)')
    for (ln, ev) in parse_bad(rr.out):
        o.finding(kind='discrete', op=ev.get('op'), dkind=ev.get('kind'), par=ev.get('par') or ev.get('p') or [ev.get('a'), ev.get('j')], event=ev,
                  signature='discrete:%s:%s:%s' % (ev.get('op'), ev.get('kind'), ev.get('par') or ev.get('p') or ev.get('a')))
    o.samples.append({'kind': 'ticket histogram (real sampler -> TraceDiscrete)', 'event': next(e for e in evs if e['op'] == 'hist' and e['kind'] == 'hin' and e['par'][0] >= 8)})
    o.samples.append({'kind': 'Bringmann-Friedrich scripted path', 'event': next(e for e in evs if e['op'] == 'bf')})
    o.assumptions = [
        'exact regimes only: BINV (n*min(p,1-p) < 10, dyadic p), HIN (N <= 16 histograms, N <= 30 breakpoint tickets), Geometric/StandardGeometric structure; '
        'BTPE, Poisson (Knuth/PD), H2PE, Zipf, Zeta laws are floating-point rejection kernels and are NOT decided',
        'half a ticket (>= 2^-31) is eleven orders of magnitude above the rounding error of the code\'s recurrences',
        'an event whose calls consumed a different number of words than the inverse-transform design is counted as outside the exact regime and not judged',
    ]
    return o.finish()
