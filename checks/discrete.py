"""C02 (exact regimes): spec/DiscreteExact.tla - ticket models of BINV (+ flip, constants) and HIN
(+ both symmetry reductions) checked exhaustively by TLC over every ticket (Law, InSupport incl. the
slack ticket, Budget, Termination); the real samplers are run with one scripted word per ticket and
TraceDiscrete.tla compares full histograms with the documented pmf numerators it computes itself,
judges breakpoint tickets for larger parameters, and validates Geometric / StandardGeometric on
scripted draw classes."""
import json
from common import *


def run(pid, tier):
    o = Outcome(pid, tier, 'model_checking')
    build_harness()
    sd = seed()
    thorough = tier == 'thorough'
    r = tlc('MCDiscrete', 'MCDiscrete.cfg', pid, 'mc', workers=8, env={'TIER': tier}, timeout=7200, heap='10g', coverage=False)
    require_ok(r, 'MCDiscrete')
    o.add_tlc(r, 'DiscreteExact: every ticket of BINV / HIN models (%s tier constants)' % tier)
    if r.violated:
        o.finding(kind='design', invariant=r.violated, detail=r.trace_text[:3000], signature='design:' + r.violated)
    wd = workdir(pid, 'traces')
    tr = wd / 'disc.ndjson'
    s = rdv(['disc-drive', '--seed', sd, '--out', tr] + (['--thorough'] if thorough else []), timeout=7200)
    o.extra['drive'] = s
    lines = tr.read_text().splitlines()
    rr = tlc('TraceDiscrete', 'TraceDiscrete.cfg', pid, 'trace', trace_mode=True, env={'TRACE': tr}, timeout=7200, heap='8g')
    require_ok(rr, 'TraceDiscrete')
    if rr.rejected or rr.violated:
        raise ToolError('discrete trace not consumed: %s' % (rr.rejected or rr.violated))
    o.add_tlc(rr, 'TraceDiscrete')
    o.traces += len(lines)
    evs = [json.loads(x) for x in lines]
    judged = sum(1 for e in evs if e['op'] not in ('hist', 'ticket', 'zipf0') or e.get('guard_ok'))
    outside = sum(1 for e in evs if e['op'] in ('hist', 'ticket', 'zipf0') and not e.get('guard_ok'))
    o.extra['events_by_kind'] = {k: sum(1 for e in evs if e['op'] == k) for k in ('hist', 'ticket', 'zipf0', 'geo', 'bf', 'bft', 'sgeo')}
    o.extra['outside_exact_regime_not_judged'] = outside
    if judged == 0 or sum(1 for e in evs if e['op'] == 'hist' and e.get('guard_ok')) == 0:
        raise ToolError('no event in the exact regime (vacuous)')
    for (ln, ev) in parse_bad(rr.out):
        o.finding(kind='discrete', op=ev.get('op'), dkind=ev.get('kind'), par=ev.get('par') or ev.get('p') or [ev.get('a'), ev.get('j')], event=ev,
                  signature='discrete:%s:%s:%s' % (ev.get('op'), ev.get('kind'), ev.get('par') or ev.get('p') or ev.get('a')))
    # Zipf / Zeta in f32: exact induced law of the two-word rejection loop over the 2^24 x 2^24 ticket lattice
    for variant in ('code', 'wrong'):
        rz = tlc('RejToy', 'RejToy_%s.cfg' % variant, pid, 'rejtoy_' + variant, workers=2, timeout=600, heap='2g')
        if 'REJTOY' not in rz.out:
            raise ToolError('RejToy did not evaluate (%s): %s' % (variant, rz.out[-800:]))
        holds = '"%s", TRUE' % variant in rz.out
        o.add_tlc(rz, 'RejToy design law of the rejection loop, variant %s: %s' % (variant, 'holds' if holds else 'fails'))
        if variant == 'code' and not holds:
            o.finding(kind='design', invariant='RejToy LawHolds', detail=rz.out[-1500:], signature='design:rejtoy')
        if variant != 'code' and holds:
            raise ToolError('RejToy: the off-by-one acceptance test passes the law check (vacuous)')
    rj = wd / 'rej.ndjson'
    r2 = tlc('MCRejection', 'MCRejection.cfg', pid, 'rej_cases', workers=1, timeout=3600, heap='2g', env={'TIER': tier},
             pipe_to=[str(RDV), 'rej-drive', '--seed', str(sd), '--out', str(rj)])
    require_ok(r2, 'MCRejection')
    s2 = json.loads(r2.consumer_out.strip().splitlines()[-1])
    if s2['cases'] < 8:
        raise ToolError('rej-drive: too few cases: %s' % s2)
    o.add_tlc(r2, 'MCRejection: pmf table sanity (ASSUME RTableOK) and case generation')
    o.extra['rejection_drive'] = s2
    r3 = tlc('TraceRejection', 'TraceRejection.cfg', pid, 'rej_trace', trace_mode=True, env={'TRACE': rj, 'TIER': tier}, timeout=1200, heap='4g')
    require_ok(r3, 'TraceRejection')
    if r3.rejected or r3.violated:
        raise ToolError('rejection trace not consumed: %s' % (r3.rejected or r3.violated))
    o.add_tlc(r3, 'TraceRejection: %d exact laws over 2^48 tickets' % s2['events'])
    rlines = rj.read_text().splitlines()
    o.traces += len(rlines)
    for (ln, ev) in parse_bad(r3.out):
        o.finding(kind='rejection', fam=ev.get('fam'), ft=ev.get('ft'), params=ev.get('params'), res=str(ev.get('res'))[:80], show=ev.get('show'),
                  event={k: v for k, v in ev.items() if k not in ('probes',)}, signature='rejection:%s:%s' % (ev.get('fam'), ev.get('params')))
    # Knuth's multiplication method (Poisson lambda < 12, f32 and f64; Binomial's Poisson limit): P(X = 0), and P(X = 1) in f32
    kn = wd / 'knuth.ndjson'
    r4 = tlc('MCKnuth', 'MCKnuth.cfg', pid, 'knuth_cases', workers=1, timeout=1200, heap='2g', env={'TIER': tier},
             pipe_to=[str(RDV), 'rej-drive', '--seed', str(sd), '--out', str(kn)])
    require_ok(r4, 'MCKnuth')
    s4 = json.loads(r4.consumer_out.strip().splitlines()[-1])
    if s4['cases'] < 15:
        raise ToolError('rej-drive (Knuth): too few cases: %s' % s4)
    r5 = tlc('TraceRejection', 'TraceRejection.cfg', pid, 'knuth_trace', trace_mode=True, env={'TRACE': kn, 'TIER': tier}, timeout=1200, heap='4g')
    require_ok(r5, 'TraceRejection')
    if r5.rejected or r5.violated:
        raise ToolError('knuth trace not consumed: %s' % (r5.rejected or r5.violated))
    o.add_tlc(r5, 'TraceRejection: %d Knuth-method events (P(X=0) exact over one word; P(X=1) over 2^48 tickets in f32)' % s4['events'])
    klines = kn.read_text().splitlines()
    o.traces += len(klines)
    o.extra['knuth_drive'] = s4
    for (ln, ev) in parse_bad(r5.out):
        o.finding(kind='knuth', fam=ev.get('fam'), ft=ev.get('ft'), params=ev.get('params'), res=str(ev.get('res'))[:80], show=ev.get('show'),
                  event={k: v for k, v in ev.items() if k not in ('probes',)}, signature='knuth:%s:%s:%s' % (ev.get('fam'), ev.get('ft'), ev.get('params')))
    # BTPE (Binomial, n min(p,1-p) >= 10), pointwise: region-2 acceptance fraction = exact pmf ratio, region-1 triangle map
    bt = wd / 'btpe.ndjson'
    r6 = tlc('MCBtpe', 'MCBtpe.cfg', pid, 'btpe_cases', workers=1, timeout=1200, heap='2g', env={'TIER': tier},
             pipe_to=[str(RDV), 'btpe-drive', '--out', str(bt)])
    require_ok(r6, 'MCBtpe')
    s6 = json.loads(r6.consumer_out.strip().splitlines()[-1])
    if s6['events'] < 120:
        raise ToolError('btpe-drive: too few events: %s' % s6)
    r7 = tlc('TraceBtpe', 'TraceBtpe.cfg', pid, 'btpe_trace', trace_mode=True, env={'TRACE': bt, 'TIER': tier}, timeout=1200, heap='4g')
    require_ok(r7, 'TraceBtpe')
    if r7.rejected or r7.violated:
        raise ToolError('btpe trace not consumed: %s' % (r7.rejected or r7.violated))
    o.add_tlc(r7, 'TraceBtpe: %d measured acceptance prefixes / triangle counts at the anchors of BtpeTable' % s6['events'])
    blines = bt.read_text().splitlines()
    o.traces += len(blines)
    o.extra['btpe_drive'] = s6
    for (ln, ev) in parse_bad(r7.out):
        o.finding(kind='btpe', op=ev.get('op'), case=ev.get('case'), k=ev.get('k'), y=ev.get('y'), n=ev.get('n'), res=str(ev.get('res'))[:80], show=ev.get('show'), event=ev,
                  signature='btpe:%s:%s:%s' % (ev.get('op'), ev.get('case'), ev.get('k')))
    o.samples.append({'kind': 'BTPE region 2: measured acceptance prefix', 'event': json.loads(blines[0])})
    # H2PE (Hypergeometric, mode >= 10 above the lower end), pointwise: region-1 acceptance prefix = exact pmf ratio
    h2 = wd / 'h2pe.ndjson'
    r8 = tlc('MCH2pe', 'MCH2pe.cfg', pid, 'h2pe_cases', workers=1, timeout=1200, heap='2g', env={'TIER': tier},
             pipe_to=[str(RDV), 'btpe-drive', '--out', str(h2)])
    require_ok(r8, 'MCH2pe')
    s8 = json.loads(r8.consumer_out.strip().splitlines()[-1])
    if s8['events'] < 150:
        raise ToolError('btpe-drive (H2PE): too few events: %s' % s8)
    r9 = tlc('TraceBtpe', 'TraceBtpe.cfg', pid, 'h2pe_trace', trace_mode=True, env={'TRACE': h2, 'TIER': tier}, timeout=1200, heap='4g')
    require_ok(r9, 'TraceBtpe (H2PE)')
    if r9.rejected or r9.violated:
        raise ToolError('h2pe trace not consumed: %s' % (r9.rejected or r9.violated))
    o.add_tlc(r9, 'TraceBtpe: %d measured H2PE acceptance prefixes at the anchors of H2peTable' % s8['events'])
    hlines = h2.read_text().splitlines()
    o.traces += len(hlines)
    o.extra['h2pe_drive'] = s8
    for (ln, ev) in parse_bad(r9.out):
        o.finding(kind='h2pe', op=ev.get('op'), N=ev.get('N'), K=ev.get('K'), n=ev.get('n'), k=ev.get('k'), out=ev.get('out'), res=str(ev.get('res'))[:80], show=ev.get('show'), event=ev,
                  signature='h2pe:%s:%s:%s:%s' % (ev.get('N'), ev.get('K'), ev.get('n'), ev.get('k')))
    o.samples.append({'kind': 'H2PE region 1: measured acceptance prefix', 'event': json.loads(hlines[0])})
    # Poisson PD (lambda >= 12), steps S / Q pointwise: after a normal deviate with floor k < l the accepting uniform words are a suffix
    pdf = wd / 'pd.ndjson'
    r10 = tlc('MCPd', 'MCPd.cfg', pid, 'pd_cases', workers=1, timeout=1200, heap='2g', env={'TIER': tier}, pipe_to=[str(RDV), 'btpe-drive', '--out', str(pdf)])
    require_ok(r10, 'MCPd')
    s10 = json.loads(r10.consumer_out.strip().splitlines()[-1])
    if s10['events'] < 100:
        raise ToolError('btpe-drive (PD): too few events: %s' % s10)
    r11 = tlc('TraceBtpe', 'TraceBtpe.cfg', pid, 'pd_trace', trace_mode=True, env={'TRACE': pdf, 'TIER': tier}, timeout=1200, heap='4g')
    require_ok(r11, 'TraceBtpe (PD)')
    if r11.rejected or r11.violated:
        raise ToolError('pd trace not consumed: %s' % (r11.rejected or r11.violated))
    o.add_tlc(r11, 'TraceBtpe: %d measured PD acceptance suffixes at the anchors of PdTable (f64 and f32)' % s10['events'])
    plines = pdf.read_text().splitlines()
    o.traces += len(plines)
    o.extra['pd_drive'] = s10
    for (ln, ev) in parse_bad(r11.out):
        o.finding(kind='pd', case=ev.get('case'), ft=ev.get('ft'), k=ev.get('k'), found=ev.get('found'), res=str(ev.get('res'))[:80], show=ev.get('show'), event=ev,
                  signature='pd:%s:%s:%s' % (ev.get('case'), ev.get('ft'), ev.get('k')))
    o.samples.append({'kind': 'Poisson PD steps S/Q: measured acceptance suffix', 'event': json.loads(plines[0])})
    # Zipf<f64> / Zeta<f64> pointwise (the f32 instantiations have the exact law above)
    rjf = wd / 'rej64.ndjson'
    r12 = tlc('MCRej64', 'MCRej64.cfg', pid, 'rej64_cases', workers=1, timeout=1200, heap='2g', env={'TIER': tier}, pipe_to=[str(RDV), 'btpe-drive', '--out', str(rjf)])
    require_ok(r12, 'MCRej64')
    s12 = json.loads(r12.consumer_out.strip().splitlines()[-1])
    if s12['events'] < 150:
        raise ToolError('btpe-drive (rej64): too few events: %s' % s12)
    r13 = tlc('TraceBtpe', 'TraceBtpe.cfg', pid, 'rej64_trace', trace_mode=True, env={'TRACE': rjf, 'TIER': tier}, timeout=1200, heap='4g')
    require_ok(r13, 'TraceBtpe (rej64)')
    if r13.rejected or r13.violated:
        raise ToolError('rej64 trace not consumed: %s' % (r13.rejected or r13.violated))
    o.add_tlc(r13, 'TraceBtpe: %d measured Zipf<f64> / Zeta<f64> acceptance prefixes at the anchors of Rej64Table' % s12['events'])
    jl = rjf.read_text().splitlines()
    o.traces += len(jl)
    o.extra['rej64_drive'] = s12
    for (ln, ev) in parse_bad(r13.out):
        o.finding(kind='rej64', case=ev.get('case'), i=ev.get('i'), x=ev.get('x'), res=str(ev.get('res'))[:80], show=ev.get('show'), event=ev,
                  signature='rej64:%s:%s' % (ev.get('case'), ev.get('i')))
    # Geometric(p) pointwise for p that are not small dyadics: trivial success prefix (exact), k, (1-p)^(2^k), (1-p)^m
    gef = wd / 'geo.ndjson'
    r14 = tlc('MCGeo', 'MCGeo.cfg', pid, 'geo_cases', workers=1, timeout=1200, heap='2g', env={'TIER': tier}, pipe_to=[str(RDV), 'btpe-drive', '--out', str(gef)])
    require_ok(r14, 'MCGeo')
    s14 = json.loads(r14.consumer_out.strip().splitlines()[-1])
    if s14['events'] < 90:
        raise ToolError('btpe-drive (geo): too few events: %s' % s14)
    r15 = tlc('TraceBtpe', 'TraceBtpe.cfg', pid, 'geo_trace', trace_mode=True, env={'TRACE': gef, 'TIER': tier}, timeout=1200, heap='4g')
    require_ok(r15, 'TraceBtpe (geo)')
    if r15.rejected or r15.violated:
        raise ToolError('geo trace not consumed: %s' % (r15.rejected or r15.violated))
    o.add_tlc(r15, 'TraceBtpe: %d measured Geometric prefixes (trivial success words, D-loop continuation, remainder acceptance) at the anchors of GeoTable' % s14['events'])
    gl = gef.read_text().splitlines()
    o.traces += len(gl)
    o.extra['geo_drive'] = s14
    for (ln, ev) in parse_bad(r15.out):
        o.finding(kind=ev.get('op'), case=ev.get('case'), i=ev.get('i'), res=str(ev.get('res'))[:80], show=ev.get('show'), event=ev,
                  signature='%s:%s:%s' % (ev.get('op'), ev.get('case'), ev.get('i')))
    o.samples.append({'kind': 'Geometric: measured remainder-acceptance prefix', 'event': json.loads(gl[-1])})
    # BINV for parameters that are not small dyadics (incl. tiny p with huge n): exact one-word law against the documented CDF
    bvf = wd / 'binv.ndjson'
    r16 = tlc('MCBinv', 'MCBinv.cfg', pid, 'binv_cases', workers=1, timeout=1200, heap='2g', env={'TIER': tier}, pipe_to=[str(RDV), 'btpe-drive', '--out', str(bvf)])
    require_ok(r16, 'MCBinv')
    s16 = json.loads(r16.consumer_out.strip().splitlines()[-1])
    if s16['events'] < 14:
        raise ToolError('btpe-drive (binv): too few events: %s' % s16)
    r17 = tlc('TraceBtpe', 'TraceBtpe.cfg', pid, 'binv_trace', trace_mode=True, env={'TRACE': bvf, 'TIER': tier}, timeout=1200, heap='4g')
    require_ok(r17, 'TraceBtpe (binv)')
    if r17.rejected or r17.violated:
        raise ToolError('binv trace not consumed: %s' % (r17.rejected or r17.violated))
    bl = bvf.read_text().splitlines()
    o.add_tlc(r17, 'TraceBtpe: exact BINV laws (one word per try, bisection per x) of %d parameter points against the documented CDF of BinvTable, %d values of x' % (s16['events'], sum(len(json.loads(l)['T']) for l in bl)))
    o.traces += len(bl)
    o.extra['binv_drive'] = s16
    for (ln, ev) in parse_bad(r17.out):
        o.finding(kind='binv', case=ev.get('case'), res=str(ev.get('res'))[:80], show=ev.get('show'), event={k: v for k, v in ev.items() if k != 'T'},
                  signature='binv:%s' % ev.get('case'))
    o.samples.append({'kind': 'BINV: exact one-word law, prefix counts per x', 'event': json.loads(bl[0])})
    # HIN beyond N <= 30: exact one-word law against the documented hypergeometric CDF
    hnf = wd / 'hin.ndjson'
    r18 = tlc('MCHin', 'MCHin.cfg', pid, 'hin_cases', workers=1, timeout=1200, heap='2g', env={'TIER': tier}, pipe_to=[str(RDV), 'btpe-drive', '--out', str(hnf)])
    require_ok(r18, 'MCHin')
    s18 = json.loads(r18.consumer_out.strip().splitlines()[-1])
    if s18['events'] < 10:
        raise ToolError('btpe-drive (hin): too few events: %s' % s18)
    r19 = tlc('TraceBtpe', 'TraceBtpe.cfg', pid, 'hin_trace', trace_mode=True, env={'TRACE': hnf, 'TIER': tier}, timeout=1200, heap='4g')
    require_ok(r19, 'TraceBtpe (hin)')
    if r19.rejected or r19.violated:
        raise ToolError('hin trace not consumed: %s' % (r19.rejected or r19.violated))
    hl = hnf.read_text().splitlines()
    o.add_tlc(r19, 'TraceBtpe: exact HIN laws (one word per call, bisection per x) of %d parameter points against the documented CDF of HinTable, %d values of x' % (s18['events'], sum(len(json.loads(l)['T']) for l in hl)))
    o.traces += len(hl)
    o.extra['hin_drive'] = s18
    for (ln, ev) in parse_bad(r19.out):
        o.finding(kind='hin', case=ev.get('case'), res=str(ev.get('res'))[:80], show=ev.get('show'), event={k: v for k, v in ev.items() if k != 'T'},
                  signature='hin:%s' % ev.get('case'))
    o.samples.append({'kind': 'HIN: exact one-word law, prefix counts per x', 'event': json.loads(hl[0])})
    o.samples.append({'kind': 'Knuth method: exact P(X = 0) of Poisson<f64>', 'event': {k: v for k, v in json.loads(klines[-5]).items() if k != 'probes'}})
    o.samples.append({'kind': 'exact law of a two-word rejection sampler (f32) over 2^48 tickets', 'event': {k: v for k, v in json.loads(rlines[0]).items() if k != 'probes'}})
    o.samples.append({'kind': 'ticket histogram (real sampler -> TraceDiscrete)', 'event': next(e for e in evs if e['op'] == 'hist' and e['kind'] == 'hin' and e['par'][0] >= 8)})
    o.samples.append({'kind': 'Bringmann-Friedrich scripted path', 'event': next(e for e in evs if e['op'] == 'bf')})
    o.assumptions = [
        'exact regimes only: BINV (n*min(p,1-p) < 10, dyadic p), HIN (N <= 16 histograms, N <= 30 breakpoint tickets), Geometric/StandardGeometric structure, '
        'Zipf and Zeta in f32 (exact law over the 2^24 x 2^24 lattice of proposal and acceptance word at the table\'s parameter points, k <= 24 and the tail, tolerance 2^-20 + 2^-14 p); '
        'Poisson with lambda < 12 (Knuth) and Binomial\'s Poisson limit: P(X = 0) = exp(-lambda) exactly (the one-word returns are a prefix of the word range; bisection with witnesses, f64) and P(X = 0), P(X = 1) over the 2^48 tickets in f32; the rest of those laws is not decided; '
        'BTPE for huge n: at the region-2 anchors of BtpeTable.BTabH (n = 2^40 and 2^60 with n p = 1024; thorough also 2^33, 2^50, 2^53, 2^62, 10^12) the proposal is the table\'s y - m and the accepting second words a prefix of the same documented length (2^-28), on both sides of |y - m| = 20 where the code changes from the pmf recursion to the squeeze and the Stirling-series test',
        'BTPE is decided POINTWISE in its two main regions: at the anchors of spec/BtpeTable.tla (6 parameter points incl. a flipped one and three with the squeeze / Stirling path) the proposal of a region-2 first word is the table\'s y and '
        'the accepting second words are a prefix of relative length (f(y)/f(m) - 1 + |x - x_m|/p1)/c with f the binomial pmf itself (2^-28), the triangle map of region 1 is exact (2^-44), and in the exponential tails (regions 3, 4) the second words returning y after an anchor\'s first word form the interval [exp(lambda (y - x_l)), min(exp(lambda (y+1-x_l)), f(y)/f(m)/((u-p2) lambda))) resp. its mirror image (2^-28); everything between anchors is NOT decided',
        'H2PE is decided POINTWISE in its central region: at the anchors of spec/H2peTable.tla (8 parameter points incl. all reductions K <-> N-K, n <-> N-n and both evaluation paths) the value returned for a region-1 first word is the table\'s and '
        'the accepting second words are a prefix of relative length f(y)/f(m) with f the hypergeometric pmf itself (2^-22), and in the exponential tails (regions 2, 3) the second words returning y form the documented interval, both ends measured (2^-22); everything between anchors is NOT decided',
        'Poisson PD (lambda >= 12) is decided POINTWISE in its main path: at the anchors of spec/PdTable.tla (7 values of lambda, k within 3.2 sigma below l, f64 and f32) the uniform words that return k after a normal deviate with floor k are a suffix of relative length '
        '1 - min((lambda-k)^3/d, 1 - pmf(k)/hat(k)) with pmf the Poisson pmf itself (2^-24 / 2^-15); the immediate-acceptance step I is structural (k >= l returns without a uniform draw); the double-exponential branch (steps E / H) likewise at 5 exponential deviates per lambda: the accepted uniform words form an interval around the middle word with half-lengths (pmf(k2) - hat(k2)) exp(e) / (2c) (2^-19 / 2^-12); everything between anchors is NOT decided',
        'Zipf<f64> / Zeta<f64> are decided POINTWISE at the anchors of spec/Rej64Table.tla (13 parameter points, first uniform j/16 and, for Zeta, proposals up to 2^320): the proposal is the table\'s and the accepting second uniform words are a prefix of the documented relative length (2^-40); between the anchors NOT decided',
        'HIN beyond N <= 30: at the 10 (thorough 22) parameter points of spec/HinTable.tla (all four reductions K <-> N-K, n <-> N-n, N up to 10^5 / 10^6) #{words with X <= x} resp. #{words with X >= x} (the value is monotone in the one word drawn, in a direction that depends on the reductions) equals the documented CDF resp. survival function to 2^-36 for every x of the body of the law',
        'Binomial with a mode beyond 2^53 (n = 2^55 ... 2^62): over 4096 random streams the values returned must include odd ones (known finding: they are multiples of the f64 spacing at the mode)',
        'BINV beyond dyadic p: at the 14 (thorough 29) parameter points of spec/BinvTable.tla (non-dyadic p, flipped p, n up to 2^55 with p down to 2^-53) the law of the one-word inversion is exact: #{words with X <= x} / #{one-word returns} equals the documented Binomial CDF to 2^-40 for every x up to the 2^-46 tail',
        'Geometric(p) is decided POINTWISE at the anchors of spec/GeoTable.tla (22 values of p incl. the dyadic ones of the scripted classes, non-dyadic, both sides of 2/3, k = 1 .. 40; thorough 39 values down to p = 3e-16): trivial algorithm - the words returning 0 at once are exactly (floor(p 2^53) + 1) 2^11; Bringmann-Friedrich - k is the documented one (a neighbour where the comparison with 1/2 is within f64 noise: any k gives the documented law), the words continuing the D loop are a prefix of relative length (1-p)^(2^k) and the uniform words accepting a remainder m (incl. m on both sides of 2^31) a prefix of relative length (1-p)^m, each to 2^-40 with p the exact value of the f64; between the anchors NOT decided',
        'Zipf/Zeta: the documented pmf values are mpmath constants of spec/RejectionTable.tla; the law formula A_k / A assumes two words per iteration and an acceptance region that is a prefix of the acceptance lattice, '
        'both checked (other = 0; probes) - and is itself checked by ticket enumeration on a toy instance (RejToy.tla, with a deliberately wrong variant that must fail)',
        'half a ticket (>= 2^-31) is eleven orders of magnitude above the rounding error of the code\'s recurrences',
        'an event whose calls consumed a different number of words than the inverse-transform design is counted as outside the exact regime and not judged',
    ]
    return o.finish()
