"""C12: spec/UnitGeom.tla (rejection from the square/cube on the dyadic lattice x = k/16 in exact
integers: acceptance region exact, identity output for disc/ball, exact unit norm of the von Neumann
and Marsaglia images) checked exhaustively by TLC; every lattice proposal is scripted into the real
samplers (f32, f64) and TraceGeom.tla checks accept/reject and the (quantised) outputs against the
documented image, plus norm rules on random and single-word-adversarial streams."""
import json
from common import *


def run(pid, tier):
    o = Outcome(pid, tier, 'model_checking')
    build_harness()
    sd = seed()
    r = tlc('UnitGeom', 'UnitGeom.cfg', pid, 'mc', workers=6, timeout=3000, heap='6g')
    require_ok(r, 'UnitGeom')
    o.add_tlc(r, 'UnitGeom: all lattice proposals, 4 samplers')
    if r.violated:
        o.finding(kind='design', invariant=r.violated, detail=r.trace_text[:3000], signature='design:' + r.violated)
    wd = workdir(pid, 'traces')
    tr = wd / 'geom.ndjson'
    s = rdv(['geom-drive', '--seed', sd, '--random', 3000 if tier == 'quick' else 60000, '--out', tr])
    o.extra['drive'] = s
    lines = tr.read_text().splitlines()
    for bi in range(0, len(lines), 150000):
        part = wd / ('geom_%d.ndjson' % (bi // 150000))
        part.write_text('\n'.join(lines[bi:bi + 150000]) + '\n')
        rr = tlc('TraceGeom', 'TraceGeom.cfg', pid, 'trace_%d' % (bi // 150000), trace_mode=True, env={'TRACE': part}, timeout=3000, heap='8g')
        require_ok(rr, 'TraceGeom')
        if rr.rejected or rr.violated:
            raise ToolError('geom trace not consumed: %s' % (rr.rejected or rr.violated))
        o.add_tlc(rr, 'TraceGeom batch %d' % (bi // 150000))
        o.traces += len(lines[bi:bi + 150000])
        for (ln, ev) in parse_bad(rr.out):
            o.finding(kind='geom', op=ev.get('op'), gkind=ev.get('kind'), ft=ev.get('ft'), res=str(ev.get('res'))[:80], event=ev,
                      signature='geom:%s:%s:%s:%s' % (ev.get('op'), ev.get('kind'), ev.get('ft'), str(ev.get('res'))[:40]))
    o.samples.append({'kind': 'lattice proposal (scripted words -> real sampler -> TraceGeom)', 'event': json.loads(lines[700])})
    o.samples.append({'kind': 'random / adversarial stream event', 'event': json.loads(lines[-1])})
    o.extra['edge_events'] = sum(1 for x in lines if '"op":"edge"' in x)
    o.extra['img_events'] = sum(1 for x in lines if '"op":"img"' in x)
    o.assumptions = [
        'acceptance region at FULL lattice resolution ("edge"): for 800 (thorough 6000) columns per sampler and float type the last accepted lattice index of the last coordinate is found by bisection and must satisfy '
        'S + L^2 <= d^2 < S + (L+1)^2 in exact integers up to two lattice steps (rounding of the sum of squares in the float type); columns with |x| <= 0.98 only; monotone acceptance along the column is assumed by the bisection',
        'documented image ("img"): UnitCircle / UnitSphere outputs against the documented formulas evaluated by the harness in the same float type from the lattice coordinates (declared transcription), 8 ordinals per component, incl. points within 2^-8 of the axes',
        'uniformity is decided structurally: uniform proposal (one rand Uniform(-1,1) draw per coordinate) + exact acceptance region + documented image; that the von Neumann map and '
        'Marsaglia\'s (1972) map push the uniform measure on the disc to the uniform measure on S^1 / S^2 are cited theorems about the documented algorithm, not checked here',
        'a sampler that draws its proposal differently (more or fewer words per iteration, rejection before the region test) is reported because the lattice accept/reject pattern no longer matches',
        'the squared norm of a sample is summed by the harness in the sampler\'s float type (IEEE operations in the projection, declared)',
        'the all-zero proposal of UnitCircle (0/0) needs two adversarial words and is outside the quantifier',
    ]
    return o.finish()
