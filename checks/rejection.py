"""C01, Beta<f32> (Cheng BB / BC): exact induced law of the two-word rejection loop.  The output is a function of the
proposal word alone and the acceptance region of each proposal word is a prefix of the acceptance lattice, so
P(X <= x) = A_{<=x} / A over the 2^24 x 2^24 tickets (spec/Rejection2.tla, design-checked on a toy instance by RejToy.tla);
spec/BetaTable.tla holds the documented CDF (regularised incomplete beta function) at up to 11 anchors per parameter point;
TLC prints the cases (MCBeta), `rdv rej-drive` measures acc(u) by threshold search on the real sampler, TraceRejection.tla judges."""
import json
from common import *


def collect_beta(o, pid, tier):
    sd = seed()
    wd = workdir(pid, 'traces')
    tr = wd / 'beta.ndjson'
    r = tlc('MCBeta', 'MCBeta.cfg', pid, 'beta_cases', workers=1, timeout=3600, heap='2g', env={'TIER': tier},
            pipe_to=[str(RDV), 'rej-drive', '--seed', str(sd), '--out', str(tr)])
    require_ok(r, 'MCBeta')
    s = json.loads(r.consumer_out.strip().splitlines()[-1])
    if s['cases'] < 10:
        raise ToolError('rej-drive (Beta): too few cases: %s' % s)
    o.add_tlc(r, 'MCBeta: CDF table sanity (ASSUME BTableOK) and case generation')
    o.extra['beta_drive'] = s
    o.evaluations += s['calls']
    rr = tlc('TraceRejection', 'TraceRejection.cfg', pid, 'beta_trace', trace_mode=True, env={'TRACE': tr, 'TIER': tier}, timeout=1200, heap='4g')
    require_ok(rr, 'TraceRejection')
    if rr.rejected or rr.violated:
        raise ToolError('beta trace not consumed: %s' % (rr.rejected or rr.violated))
    o.add_tlc(rr, 'TraceRejection: %d exact Beta<f32> laws over 2^48 tickets' % s['events'])
    lines = tr.read_text().splitlines()
    o.traces += len(lines)
    for (ln, ev) in parse_bad(rr.out):
        o.finding(kind='rejection', fam=ev.get('fam'), ft=ev.get('ft'), params=ev.get('params'), res=str(ev.get('res'))[:80], show=ev.get('show'),
                  event={k: v for k, v in ev.items() if k not in ('probes',)}, signature='rejection:%s:%s' % (ev.get('fam'), ev.get('params')))
    o.samples.append({'kind': 'exact cumulative law of Beta<f32> at the anchors (2^48 tickets)', 'event': {k: v for k, v in json.loads(lines[0]).items() if k != 'probes'}})


def collect_mt(o, pid, tier):
    """Marsaglia-Tsang kernel (Gamma with shape >= 1; behind shape < 1, ChiSquared, StudentT, FisherF and Dirichlet's gamma path), pointwise:
    at the anchors of spec/MtTable.tla the value returned for a normal deviate x is d (1 + c x)^3 and the accepting uniform words are a
    prefix of relative length min(1, exp(x^2/2 + d (1 - v + ln v))), the ratio of the gamma density to the normal hat (f64 and f32)."""
    wd = workdir(pid, 'traces')
    tr = wd / 'mt.ndjson'
    r = tlc('MCMt', 'MCMt.cfg', pid, 'mt_cases', workers=1, timeout=1200, heap='2g', env={'TIER': tier}, pipe_to=[str(RDV), 'btpe-drive', '--out', str(tr)])
    require_ok(r, 'MCMt')
    s = json.loads(r.consumer_out.strip().splitlines()[-1])
    if s['events'] < 80:
        raise ToolError('btpe-drive (MT): too few events: %s' % s)
    rr = tlc('TraceBtpe', 'TraceBtpe.cfg', pid, 'mt_trace', trace_mode=True, env={'TRACE': tr, 'TIER': tier}, timeout=1200, heap='4g')
    require_ok(rr, 'TraceBtpe (MT)')
    if rr.rejected or rr.violated:
        raise ToolError('mt trace not consumed: %s' % (rr.rejected or rr.violated))
    o.add_tlc(rr, 'TraceBtpe: %d measured Marsaglia-Tsang acceptance prefixes at the anchors of MtTable (f64 and f32)' % s['events'])
    lines = tr.read_text().splitlines()
    o.traces += len(lines)
    o.extra['mt_drive'] = s
    for (ln, ev) in parse_bad(rr.out):
        o.finding(kind='mt', case=ev.get('case'), ft=ev.get('ft'), j=ev.get('j'), res=str(ev.get('res'))[:80], show=ev.get('show'), event=ev,
                  signature='mt:%s:%s:%s' % (ev.get('case'), ev.get('ft'), ev.get('j')))
    o.samples.append({'kind': 'Marsaglia-Tsang: measured acceptance prefix', 'event': json.loads(lines[0])})


def collect_cheng(o, pid, tier):
    """Cheng BB / BC kernels behind Beta<f64>, pointwise: at the anchors of spec/ChengTable.tla (14 parameter pairs incl. both orders, a = b, min = 1, min < 1 < max;
    first uniform u1 = j/16; thorough: 28 pairs, u1 = j/64) the value returned is the documented function of u1 and the accepting second uniform words are a prefix of the relative length the
    documented tests give - the density ratio that makes the method exact (Beta<f32> has the exact law check)."""
    wd = workdir(pid, 'traces')
    tr = wd / 'cheng.ndjson'
    r = tlc('MCCheng', 'MCCheng.cfg', pid, 'cheng_cases', workers=1, timeout=1200, heap='2g', env={'TIER': tier}, pipe_to=[str(RDV), 'btpe-drive', '--out', str(tr)])
    require_ok(r, 'MCCheng')
    s = json.loads(r.consumer_out.strip().splitlines()[-1])
    if s['events'] < 120:
        raise ToolError('btpe-drive (Cheng): too few events: %s' % s)
    rr = tlc('TraceBtpe', 'TraceBtpe.cfg', pid, 'cheng_trace', trace_mode=True, env={'TRACE': tr, 'TIER': tier}, timeout=1200, heap='4g')
    require_ok(rr, 'TraceBtpe (Cheng)')
    if rr.rejected or rr.violated:
        raise ToolError('cheng trace not consumed: %s' % (rr.rejected or rr.violated))
    o.add_tlc(rr, 'TraceBtpe: %d measured Cheng BB/BC acceptance prefixes at the anchors of ChengTable (Beta<f64>)' % s['events'])
    lines = tr.read_text().splitlines()
    o.traces += len(lines)
    o.extra['cheng_drive'] = s
    for (ln, ev) in parse_bad(rr.out):
        o.finding(kind='cheng', case=ev.get('case'), i=ev.get('i'), res=str(ev.get('res'))[:80], show=ev.get('show'), event=ev,
                  signature='cheng:%s:%s' % (ev.get('case'), ev.get('i')))
    o.samples.append({'kind': 'Cheng BB/BC: measured acceptance prefix', 'event': json.loads(lines[0])})
