"""C01, Beta<f32> (Cheng BB / BC): exact induced law of the two-word rejection loop.  The output is a function of the
proposal word alone and the acceptance region of each proposal word is a prefix of the acceptance lattice, so
P(X <= x) = A_{<=x} / A over the 2^24 x 2^24 tickets (spec/Rejection2.tla, design-checked on a toy instance by RejToy.tla);
spec/BetaTable.tla holds the documented CDF (regularised incomplete beta function) at up to 11 anchors per parameter point;
TLC prints the cases (MCBeta), `rdv rej-drive` measures acc(u) by threshold search on the real sampler, TraceRejection.tla judges."""
import json
from common import *


def collect_beta(o, pid, tier):
    sd = seed()
    wd = workdir(pid, 'traces')
    tr = wd / 'beta.ndjson'
    r = tlc('MCBeta', 'MCBeta.cfg', pid, 'beta_cases', workers=1, timeout=3600, heap='2g', env={'TIER': tier},
            pipe_to=[str(RDV), 'rej-drive', '--seed', str(sd), '--out', str(tr)])
    require_ok(r, 'MCBeta')
    s = json.loads(r.consumer_out.strip().splitlines()[-1])
    if s['cases'] < 10:
        raise ToolError('rej-drive (Beta): too few cases: %s' % s)
    o.add_tlc(r, 'MCBeta: CDF table sanity (ASSUME BTableOK) and case generation')
    o.extra['beta_drive'] = s
    o.evaluations += s['calls']
    rr = tlc('TraceRejection', 'TraceRejection.cfg', pid, 'beta_trace', trace_mode=True, env={'TRACE': tr, 'TIER': tier}, timeout=1200, heap='4g')
    require_ok(rr, 'TraceRejection')
    if rr.rejected or rr.violated:
        raise ToolError('beta trace not consumed: %s' % (rr.rejected or rr.violated))
    o.add_tlc(rr, 'TraceRejection: %d exact Beta<f32> laws over 2^48 tickets' % s['events'])
    lines = tr.read_text().splitlines()
    o.traces += len(lines)
    for (ln, ev) in parse_bad(rr.out):
        o.finding(kind='rejection', fam=ev.get('fam'), ft=ev.get('ft'), params=ev.get('params'), res=str(ev.get('res'))[:80], show=ev.get('show'),
                  event={k: v for k, v in ev.items() if k not in ('probes',)}, signature='rejection:%s:%s' % (ev.get('fam'), ev.get('params')))
    o.samples.append({'kind': 'exact cumulative law of Beta<f32> at the anchors (2^48 tickets)', 'event': {k: v for k, v in json.loads(lines[0]).items() if k != 'probes'}})
