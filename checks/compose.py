"""C07 / C11: composition rules of spec/Compose.tla evaluated by TraceCompose.tla on paired executions
(cloned RNG streams, random and single-word-adversarial): exact 2^k homogeneity, equal word consumption,
affine image of the canonical sample, from_zscore on the dyadic lattice, LogNormal = exp(Normal);
Dirichlet simplex structure, API agreement and the two documented constructions replayed with the
crate's public Beta / Gamma."""
import json
from common import *


def run(pid, tier):
    o = Outcome(pid, tier, 'model_checking')
    build_harness()
    sd = seed()
    wd = workdir(pid, 'traces')
    tr = wd / 'comp.ndjson'
    s = rdv(['comp-drive', '--prop', pid, '--seed', sd, '--random', (40 if pid == 'C07' else 25 if pid == 'C01' else 60) * (1 if tier == 'quick' else 40), '--out', tr], timeout=7200)
    o.extra['drive'] = s
    lines = tr.read_text().splitlines()
    if len(lines) < 500:
        raise ToolError('comp-drive produced too few events')
    kinds = {}
    for bi in range(0, len(lines), 120000):
        part = wd / ('comp_%d.ndjson' % (bi // 120000))
        part.write_text('\n'.join(lines[bi:bi + 120000]) + '\n')
        rr = tlc('TraceCompose', 'TraceCompose.cfg', pid, 'trace_%d' % (bi // 120000), trace_mode=True, env={'TRACE': part}, timeout=6000, heap='10g')
        require_ok(rr, 'TraceCompose')
        if rr.rejected or rr.violated:
            raise ToolError('compose trace not consumed: %s' % (rr.rejected or rr.violated))
        o.add_tlc(rr, 'TraceCompose batch %d' % (bi // 120000))
        o.traces += len(lines[bi:bi + 120000])
        for (ln, ev) in parse_bad(rr.out):
            oc = ev.get('outcls') or []
            sym = 'nonfinite-output' if any(c in ('pinf', 'ninf', 'nan') for c in oc) else ('exact-zero-component' if ev.get('zeros') else None)
            a64 = ev.get('alpha64') or []
            all_small = bool(a64) and all(k <= 6 for k in a64)
            o.finding(kind='compose', symptom=sym, all_small=all_small, op=ev.get('op'), fam=ev.get('fam'), ft=ev.get('ft'), res=str(ev.get('res'))[:60], matched=ev.get('matched'),
                      show=ev.get('show'), params=ev.get('params') or ev.get('alpha'), stream=ev.get('stream'), event={k: v for k, v in ev.items() if k not in ('out', 'sb', 'gn')},
                      signature='compose:%s:%s:%s:%s:%s' % (ev.get('op'), ev.get('fam'), ev.get('ft'), ev.get('matched'), sym))
    matched = {}
    for x in lines:
        e = json.loads(x)
        kinds[e['op']] = kinds.get(e['op'], 0) + 1
        if e.get('wired'):
            key = '%s alpha64=%s' % (e.get('matched'), e.get('alpha64'))
            matched[key] = matched.get(key, 0) + 1
    o.extra['events_by_kind'] = kinds
    if pid == 'C01':
        import zig
        import quantile
        zig.collect(o, pid, tier, toy=False)
        quantile.collect(o, pid, tier)
        import rejection
        rejection.collect_beta(o, pid, tier)
        rejection.collect_mt(o, pid, tier)
        rejection.collect_cheng(o, pid, tier)
        w = [json.loads(x) for x in lines]
        same = sum(1 for e in w if e.get('wa') == e.get('wb'))
        o.extra['wire_events'] = len(w); o.extra['judged_same_word_count'] = same
        o.extra['per_family'] = {f: sum(1 for e in w if e['fam'] == f) for f in sorted({e['fam'] for e in w})}
        if same < 0.8 * len(w):
            raise ToolError('fewer than 80%% of the wiring events follow the documented construction (%d of %d): vacuous' % (same, len(w)))
    if pid == 'C11':
        import rejection
        rejection.collect_mt(o, pid, tier)          # the Gamma kernel behind the gamma-normalisation path
        rejection.collect_beta(o, pid, tier)        # the Beta kernel (f32: exact law) behind the stick-breaking path
        rejection.collect_cheng(o, pid, tier)       # and its f64 instantiation, pointwise
        o.extra['construction_matched'] = matched
        if not any(k.startswith('stick') for k in matched) or not any(k.startswith('gamma') for k in matched):
            raise ToolError('both constructions must be exercised: %s' % list(matched)[:4])
    o.samples.append({'kind': 'paired execution event', 'event': {k: v for k, v in json.loads(lines[3]).items() if k not in ('sb', 'gn')}})
    o.samples.append({'kind': 'paired execution event', 'event': {k: v for k, v in json.loads(lines[len(lines) // 2]).items() if k not in ('sb', 'gn')}})
    if pid == 'C01':
        o.assumptions = [
            'ziggurat part (StandardNormal, Exp1): tables against the structural equations (ZigTables.tla) and executions against the ZIGNOR automaton (TraceZig.tla: layer, sign, word count, result region, tail sign), exactly as for C06',
            'inverse-CDF samplers (Cauchy, Pareto, Weibull, Gumbel, Frechet, Triangular): the LAW is decided at the anchors of spec/QuantileTable.tla (52 dyadic parameter points x 9 probabilities '
            '2^-20 .. 1-2^-20 x f32/f64) as an exact ticket count against the documented CDF bracketed at x(1 -/+ 2^-20), resolution two steps of the uniform draw; the table itself is mpmath output '
            '(tools/gen_quantile_table.py, 60 digits) whose order/median sanity TLC checks; f64 counts rest on monotonicity inside each half of the word range, checked on ~150 sorted words per half',
            'Beta<f32> (Cheng BB and BC, both parameter orders, both sides of min(a,b) = 1): the LAW is decided as an exact ticket count over the 2^24 x 2^24 lattice of proposal and acceptance word '
            '(output = function of the proposal word, acceptance region = prefix of the acceptance lattice, both checked by probes) against the regularised incomplete beta function at the anchors of '
            'spec/BetaTable.tla (mpmath), slack 2^-20; Beta<f64> is decided POINTWISE: at the anchors of spec/ChengTable.tla (14 parameter pairs, u1 = j/16) the value returned is the documented function of u1 and the accepting second words are a prefix of the documented relative length (2^-36)',
            'Gamma with shape >= 1 (Marsaglia-Tsang), f64 and f32, POINTWISE: at the anchors of spec/MtTable.tla (7 shapes x up to 10 normal deviates) the value returned is d (1 + c x)^3 and the accepting uniform words are a prefix of relative length '
            'min(1, exp(x^2/2 + d (1 - v + ln v))), the density ratio that makes the method exact (2^-32 / 2^-14); between the anchors NOT decided',
            'ONLY the composition layer is decided for the remaining families: ChiSquared, StudentT, FisherF, Pert, Exp, Gamma(shape <= 1), Normal(0,1), SkewNormal, InverseGaussian (plus its measured root-selection probability), NormalInverseGaussian are the documented functions of the crate\'s own primitives '
            '(StandardNormal, Exp1, Gamma with shape > 1, Beta) evaluated with the public API on a clone of the stream',
            'NOT decided: the laws of the primitives themselves (ziggurat: structure only, C06; Marsaglia-Tsang, Cheng BB/BC, Michael-Schucany-Haas, the inverse-CDF one-liners) and of every family not listed; '
            'no density, CDF or tail probability is evaluated anywhere (TLC cannot; DESIGN 3)',
            'a call that consumes a different number of words than the documented construction is counted as another construction and not judged',
        ]
    elif pid == 'C07':
        o.assumptions = [
            'R3 reference fl(loc + fl(scale*b)) is one multiply and one add done by the harness on logged values (declared); tolerances are fixed in Compose.tla',
            'R1 is judged while results stay in the normal range (envelope E); R3 for the families with an explicit loc + scale*b form; Triangular, Pert, InverseGaussian by R1/R2; LogNormal by identity with exp(Normal)',
            'Base(fam, shape, stream) is uninterpreted: nothing is said about the law of the canonical sample (C01)',
        ]
    else:
        o.assumptions = [
            'marginal Beta laws are NOT decided (they reduce to the laws of the crate\'s Beta/Gamma kernels: C01)',
            'wiring is replayed for dyadic alpha (k/64) with the crate\'s public Beta::new / Gamma::new; either documented construction is accepted on either side of 0.1',
            'the component sum is accumulated by the harness in index order in the sampler\'s float type (declared)',
        ]
    return o.finish()
