#!/bin/sh
# Offline setup: build the harness crate(s) against /repo and parse every TLA+ module.
set -e
cd "$(dirname "$0")"
export CARGO_NET_OFFLINE=true
[ -f harness/Cargo.lock ] || cp /repo/Cargo.lock harness/Cargo.lock
(cd harness && cargo build --release --offline)
# second profile with release semantics (no debug assertions, wrapping arithmetic): used by C03/C05 for entries that panic under the checking profile
(cd harness && cargo build --profile relsem --offline)
if [ -d harness-serde ]; then
  [ -f harness-serde/Cargo.lock ] || cp /repo/Cargo.lock harness-serde/Cargo.lock
  (cd harness-serde && cargo build --release --offline)
fi
cd spec
for f in *.tla; do
  tla-sany "$f" > /dev/null 2>&1 || { echo "SANY failed on $f"; tla-sany "$f" | tail -20; exit 1; }
done
echo setup ok
