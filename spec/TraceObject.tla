---------------------------- MODULE TraceObject ----------------------------
(***************************************************************************)
(* Trace validation for the object model (C14, C15).  The harness executes *)
(* every schedule generated from ObjectModel.tla on real distribution      *)
(* values (objects 1 and 3 of one registry entry, object 2 of another) and *)
(* logs, with injectively interned ids, the RNG state before and after     *)
(* each sample, the output bits, Debug strings and == results.             *)
(*                                                                         *)
(* sample() is an uninterpreted function F : class x rngstate ->           *)
(* (output, rngstate) that this specification LEARNS: the first event with *)
(* key (cls[o], pre) defines F there (memo); every later event with the    *)
(* same key - on whatever object, after whatever history - must log the    *)
(* same output and the same successor state.                               *)
(***************************************************************************)
EXTENDS Integers, Sequences, FiniteSets, TLC, Json, IOUtils

Rec == ndJsonDeserialize(IOEnv.TRACE)

VARIABLES cls,    \* object -> class id
          st,     \* rng handle -> state id
          memo,   \* set of <<class, pre, out, post>>: the learnt graph of F
          dmemo,  \* set of <<class, debug id>>
          bad,    \* the current schedule instance already violated a rule (rest of it is skipped)
          l
vars == <<cls, st, memo, dmemo, bad, l>>
Ev == Rec[l]

Known(c, pre) == \E e \in memo : e[1] = c /\ e[2] = pre
Lookup(c, pre) == CHOOSE e \in memo : e[1] = c /\ e[2] = pre

\* learn-or-check one application of F
Consistent(c, pre, out, post) == Known(c, pre) => (Lookup(c, pre)[3] = out /\ Lookup(c, pre)[4] = post)
Learn(c, pre, out, post) == memo \cup {<<c, pre, out, post>>}

Report == PrintT(<<"TRACE-BAD", l, ToJson(Ev)>>)

\* what each event must satisfy, given the model state
Rule ==
  CASE Ev.op = "reset"    -> TRUE
    \* (a panic is an outcome like any other here - out = 0 - and must be just as reproducible;
    \*  panic-freedom itself is C03/C10's statement, not C14's)
    [] Ev.op = "sample"   -> /\ (Ev.r # 0 => st[Ev.r] = Ev.pre)            \* the handle is where the model says
                             /\ Consistent(cls[Ev.o], Ev.pre, Ev.out, Ev.post)
    [] Ev.op = "iter"     -> Ev.res # "Ok" \/
                             /\ st[Ev.r] = Ev.pre
                             /\ Known(cls[Ev.o], Ev.pre)                     \* shadow samples were logged first
                             /\ LET e1 == Lookup(cls[Ev.o], Ev.pre) IN
                                /\ e1[3] = Ev.outs[1]
                                /\ Known(cls[Ev.o], e1[4])
                                /\ LET e2 == Lookup(cls[Ev.o], e1[4]) IN e2[3] = Ev.outs[2] /\ e2[4] = Ev.post
    [] Ev.op \in {"clone", "rebuild"} -> Ev.res = "Ok"
    [] Ev.op = "mutate"   -> Ev.res \in {"Ok", "NotMutable"}
    [] Ev.op = "roundtrip" -> Ev.res \in {"Ok", "NoSerdeImpl"}               \* (de)serialisation never fails on a valid value
    [] Ev.op = "eq"       -> Ev.res = -1 \/ (Ev.res = 1) = (cls[Ev.o] = cls[Ev.a])
    [] Ev.op = "dbg"      -> \A d \in dmemo : d[1] = cls[Ev.o] => d[2] = Ev.h
    [] Ev.op \in {"rngclone", "reseed"} -> TRUE
    [] OTHER -> FALSE

Effect ==
  CASE Ev.op = "reset"    -> /\ cls' = [o \in 1..3 |-> IF o = 2 THEN Ev.cb ELSE Ev.ca]
                             /\ st' = [r \in 1..2 |-> Ev.st] /\ memo' = {} /\ dmemo' = {} /\ bad' = FALSE
    [] Ev.op = "sample"   -> /\ memo' = Learn(cls[Ev.o], Ev.pre, Ev.out, Ev.post)
                             /\ st' = IF Ev.r # 0 THEN [st EXCEPT ![Ev.r] = Ev.post] ELSE st
                             /\ UNCHANGED <<cls, dmemo, bad>>
    [] Ev.op = "iter"     -> st' = [st EXCEPT ![Ev.r] = Ev.post] /\ UNCHANGED <<cls, memo, dmemo, bad>>
    [] Ev.op \in {"clone", "rebuild"} -> cls' = [cls EXCEPT ![Ev.o] = cls[Ev.a]] /\ UNCHANGED <<st, memo, dmemo, bad>>
    \* class ids of mutated values: id + 100000 (idempotent)
    [] Ev.op = "mutate"   -> /\ cls' = IF Ev.res = "Ok" /\ cls[Ev.o] < 100000 THEN [cls EXCEPT ![Ev.o] = cls[Ev.o] + 100000] ELSE cls
                             /\ UNCHANGED <<st, memo, dmemo, bad>>
    [] Ev.op = "roundtrip" -> /\ cls' = IF Ev.res = "Ok" THEN [cls EXCEPT ![Ev.o] = cls[Ev.a]] ELSE cls
                              /\ UNCHANGED <<st, memo, dmemo, bad>>
    [] Ev.op = "dbg"      -> dmemo' = dmemo \cup {<<cls[Ev.o], Ev.h>>} /\ UNCHANGED <<cls, st, memo, bad>>
    [] Ev.op = "rngclone" -> st' = [st EXCEPT ![Ev.r] = st[Ev.a]] /\ UNCHANGED <<cls, memo, dmemo, bad>>
    [] Ev.op = "reseed"   -> st' = [st EXCEPT ![Ev.r] = Ev.st] /\ UNCHANGED <<cls, memo, dmemo, bad>>
    [] OTHER -> UNCHANGED <<cls, st, memo, dmemo, bad>>

TInit == /\ l = 1 /\ cls = [o \in 1..3 |-> 0] /\ st = [r \in 1..2 |-> 0] /\ memo = {} /\ dmemo = {} /\ bad = FALSE

\* a violated rule is reported once per schedule instance; the rest of that instance is skipped
\* (its model state is no longer meaningful), the next "reset" resumes checking
TNext == /\ l <= Len(Rec) /\ l' = l + 1
         /\ IF bad /\ Ev.op # "reset" THEN UNCHANGED <<cls, st, memo, dmemo, bad>>
            ELSE IF Rule THEN Effect
            ELSE Report /\ bad' = TRUE /\ UNCHANGED <<cls, st, memo, dmemo>>
TSpec == TInit /\ [][TNext]_vars

TraceAccepted ==
    LET d == TLCGet("stats").diameter IN
    IF d - 1 = Len(Rec) THEN TRUE
    ELSE PrintT(<<"TRACE-REJECTED", "first unmatched line", d, ToJson(Rec[d])>>) /\ FALSE
=============================================================================
