----------------------------- MODULE MCRejection -----------------------------
(* Prints the cases of RejectionTable for the harness *)
EXTENDS Rejection2, TLC, Json
VARIABLE c
Init == c = 0
Next == /\ c < Len(RT) /\ c' = c + 1
        /\ PrintT(<<"CASE", ToJson([id |-> RT[c'].id, fam |-> RT[c'].fam, params |-> RT[c'].params, k |-> Len(RT[c'].pmf)])>>)
Spec == Init /\ [][Next]_c
=============================================================================
