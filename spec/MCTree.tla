------------------------------ MODULE MCTree ------------------------------
(* Exhaustive model-checking instance of WeightedTree (C09, C10).          *)
EXTENDS WeightedTree, TLC, IOUtils

\* instance parameters come from the environment so that one .cfg serves all tiers
M         == atoi(IOEnv.M)          \* MAXW of this instance
EnvMaxLen == atoi(IOEnv.MAXLEN)
LawTotal  == atoi(IOEnv.LAWTOTAL)   \* Law is enumerated in states whose total is <= this

MC_PushVals == {NAN, NEG, 0, 1, 2, M - 2, M - 1, M}
MC_UpdVals  == {NEG, 0, 1, 2, M - 1, M}
MC_UpdIdx   == 0..6
MC_NewLists == { <<>>, <<1, 2, 0, 1>>, <<M - 2, 0, 1>>, <<M, 1>>, <<1, NEG>>, <<0, 0, 0>>, <<NEG, 1, 1>>, <<2, NEG, 0, 1, 1>> }

\* Law with totals near M would enumerate M targets per state; restrict the
\* exhaustive Law check to states whose total is small or use the full range
\* when M is small (M = 7 config).
LawSmall == (Total(sub) <= LawTotal) => Law
PanicSmall == (Total(sub) <= LawTotal) => NoAssertPanic
=============================================================================
