--------------------------- MODULE WeightedAlias ---------------------------
(***************************************************************************)
(* Specification of rand_distr::weighted::WeightedAliasIndex<W>::new,      *)
(* weights() and sample() (src/weighted/weighted_alias.rs) for integer     *)
(* weights (floats holding small integers behave identically).             *)
(*                                                                         *)
(* Structured like the code: validation, scaling by n, the split loop, the *)
(* pairing loop (one action per iteration) and the leftover fix-up, with   *)
(* the two intrusive LIFO work lists sharing the `alias` array exactly as  *)
(* `struct Aliases` does (NONE stands for u32::MAX).                       *)
(***************************************************************************)
EXTENDS Integers, Sequences, FiniteSets

CONSTANTS MAXW,       \* W::MAX
          Vectors     \* set of weight vectors new() is called with

NEG  == -1            \* a negative weight
NAN  == -2            \* a float NaN
NONE == -1            \* u32::MAX: empty-list marker of `struct Aliases`

VARIABLES pc,       \* "validate" | "split" | "pair" | "finish" | "done"
          w,        \* the argument vector (0-based index i at w[i+1])
          n,        \* weights.len()
          S,        \* weight_sum
          odds,     \* no_alias_odds
          alias,    \* aliases (also holds the list links during construction)
          sh, bh,   \* smalls_head, bigs_head
          k,        \* loop index of the split loop
          verdict   \* "Ok" | "InvalidInput" | "InvalidWeight" | "InsufficientNonZero" | "-"

vars == <<pc, w, n, S, odds, alias, sh, bh, k, verdict>>

RECURSIVE SumSeq(_)
SumSeq(l) == IF Len(l) = 0 THEN 0 ELSE Head(l) + SumSeq(Tail(l))

Idx == 0..(n - 1)

\* W::try_from_u32_lossy(n).map(|n| W::MAX / n).unwrap_or(W::ZERO)
MaxWeightSize(len) == IF len = 0 THEN 0 ELSE IF len <= MAXW THEN MAXW \div len ELSE 0

Init == /\ w \in Vectors
        /\ pc = "validate" /\ n = Len(w) /\ S = 0
        /\ odds = <<>> /\ alias = <<>> /\ sh = NONE /\ bh = NONE /\ k = 0 /\ verdict = "-"

Fail(v) == /\ verdict' = v /\ pc' = "done"
           /\ UNCHANGED <<w, n, S, odds, alias, sh, bh, k>>

Validate ==
    /\ pc = "validate"
    /\ IF n = 0 THEN Fail("InvalidInput")
       ELSE IF \E i \in 1..n : ~(0 <= w[i] /\ w[i] <= MaxWeightSize(n)) THEN Fail("InvalidWeight")
       ELSE IF SumSeq(w) = 0 THEN Fail("InsufficientNonZero")
       ELSE /\ S' = SumSeq(w)
            /\ odds' = [i \in 1..n |-> w[i] * n]            \* *odds *= n_converted
            /\ alias' = [i \in 1..n |-> 0]                   \* vec![0; size]
            /\ sh' = NONE /\ bh' = NONE /\ k' = 0
            /\ pc' = "split"
            /\ UNCHANGED <<w, n, verdict>>

\* for (index, &odds) in no_alias_odds.iter().enumerate()
Split ==
    /\ pc = "split"
    /\ IF k < n
         THEN /\ IF odds[k + 1] < S
                   THEN alias' = [alias EXCEPT ![k + 1] = sh] /\ sh' = k /\ bh' = bh   \* push_small
                   ELSE alias' = [alias EXCEPT ![k + 1] = bh] /\ bh' = k /\ sh' = sh   \* push_big
              /\ k' = k + 1 /\ pc' = pc
         ELSE pc' = "pair" /\ UNCHANGED <<alias, sh, bh, k>>
    /\ UNCHANGED <<w, n, S, odds, verdict>>

\* while !smalls_is_empty() && !bigs_is_empty()
Pair ==
    /\ pc = "pair"
    /\ IF sh # NONE /\ bh # NONE
         THEN LET s   == sh
                  b   == bh
                  sh1 == alias[s + 1]                         \* pop_small
                  bh1 == alias[b + 1]                         \* pop_big
                  nb  == odds[b + 1] - S + odds[s + 1]
                  a1  == [alias EXCEPT ![s + 1] = b]          \* set_alias(s, b)
              IN  /\ odds' = [odds EXCEPT ![b + 1] = nb]
                  /\ IF nb < S
                       THEN alias' = [a1 EXCEPT ![b + 1] = sh1] /\ sh' = b /\ bh' = bh1
                       ELSE alias' = [a1 EXCEPT ![b + 1] = bh1] /\ bh' = b /\ sh' = sh1
                  /\ pc' = pc
         ELSE pc' = "finish" /\ UNCHANGED <<odds, alias, sh, bh>>
    /\ UNCHANGED <<w, n, S, k, verdict>>

\* leftovers get no_alias_odds = weight_sum
Finish ==
    /\ pc = "finish"
    /\ IF sh # NONE
         THEN /\ odds' = [odds EXCEPT ![sh + 1] = S] /\ sh' = alias[sh + 1]
              /\ UNCHANGED <<bh, pc, verdict>>
       ELSE IF bh # NONE
         THEN /\ odds' = [odds EXCEPT ![bh + 1] = S] /\ bh' = alias[bh + 1]
              /\ UNCHANGED <<sh, pc, verdict>>
       ELSE pc' = "done" /\ verdict' = "Ok" /\ UNCHANGED <<odds, sh, bh>>
    /\ UNCHANGED <<w, n, S, alias, k>>

Next == Validate \/ Split \/ Pair \/ Finish
Spec == Init /\ [][Next]_vars /\ WF_vars(Next)

---------------------------------------------------------------------------
Built == pc = "done" /\ verdict = "Ok"

\* sample(): column c uniform on 0..n-1, threshold t uniform on 0..S-1
Sample(c, t) == IF t < odds[c + 1] THEN c ELSE alias[c + 1]

\* weights(): the inverse map
Contribution(i) ==
    LET J == {j \in Idx : odds[j + 1] < S /\ alias[j + 1] = i}
        RECURSIVE Acc(_)
        Acc(T) == IF T = {} THEN 0 ELSE LET j == CHOOSE x \in T : TRUE
                                         IN (S - odds[j + 1]) + Acc(T \ {j})
    IN Acc(J)
Weights == [i \in 1..n |-> (odds[i] + Contribution(i - 1)) \div n]

\* the documented verdict, stated independently of the control flow above
DocVerdict(v) ==
    IF Len(v) = 0 THEN "InvalidInput"
    ELSE IF \E i \in 1..Len(v) : v[i] < 0 \/ v[i] > MaxWeightSize(Len(v)) THEN "InvalidWeight"
    ELSE IF \A i \in 1..Len(v) : v[i] = 0 THEN "InsufficientNonZero"
    ELSE "Ok"

---------------------------------------------------------------------------
(* Invariants                                                              *)

VerdictOK == pc = "done" => verdict = DocVerdict(w)

\* C08 law: the number of equiprobable (column, threshold) tickets that yield i is n*w_i
Law == Built => \A i \in Idx :
          Cardinality({ct \in Idx \X (0..(S - 1)) : Sample(ct[1], ct[2]) = i}) = n * w[i + 1]

\* the same law in closed form (cheap; used when n*S is large)
LawClosed == Built => \A i \in Idx :
          (IF odds[i + 1] < S THEN odds[i + 1] ELSE S) + Contribution(i) = n * w[i + 1]

ZeroNever == Built => \A c \in Idx, t \in {0, S - 1} : w[Sample(c, t) + 1] > 0

Reconstruction == Built => Weights = w

OddsRange == pc \in {"split", "pair", "finish", "done"} /\ verdict \in {"-", "Ok"} =>
                \A i \in 1..Len(odds) : 0 <= odds[i] /\ odds[i] <= MAXW
AliasValid == Built => \A j \in Idx : odds[j + 1] < S => alias[j + 1] \in Idx

\* integer arithmetic of the pairing step stays in range: b comes from the big list
NoUnderflow == (pc = "pair" /\ sh # NONE /\ bh # NONE) => odds[bh + 1] >= S /\ odds[sh + 1] < S

\* list discipline: following the links from either head visits distinct indices, the
\* two lists are disjoint, and after the split every index not in a list has its final alias
RECURSIVE Chain(_, _)
Chain(h, fuel) == IF h = NONE \/ fuel = 0 THEN <<>> ELSE <<h>> \o Chain(alias[h + 1], fuel - 1)
ToSet(s) == {s[i] : i \in 1..Len(s)}
ListDiscipline ==
    pc \in {"split", "pair", "finish"} =>
       LET cs == Chain(sh, n + 1)
           cb == Chain(bh, n + 1)
       IN  /\ Len(cs) <= n /\ Len(cb) <= n
           /\ Cardinality(ToSet(cs)) = Len(cs) /\ Cardinality(ToSet(cb)) = Len(cb)
           /\ ToSet(cs) \cap ToSet(cb) = {}
           /\ ToSet(cs) \cup ToSet(cb) \subseteq Idx
           /\ \A i \in ToSet(cs) : odds[i + 1] < S
           /\ \A i \in ToSet(cb) : odds[i + 1] >= S
           /\ pc = "split" => ToSet(cs) \cup ToSet(cb) = 0..(k - 1)

Termination == <>(pc = "done")
=============================================================================
