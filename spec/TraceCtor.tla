----------------------------- MODULE TraceCtor -----------------------------
(* C04 trace validation: every recorded constructor call (generated lattice *)
(* cases and fuzzed bit patterns alike) must have a verdict admitted by     *)
(* Constructors!Allowed for the logged order abstraction of its arguments,  *)
(* must not have panicked, and accessors of a built value must report the   *)
(* arguments.  Events are independent: a violating event is printed and     *)
(* consumed, the rest of the trace is still examined.                       *)
EXTENDS Constructors, TLC, Json, IOUtils

Rec == ndJsonDeserialize(IOEnv.TRACE)
VARIABLE l
Ev == Rec[l]

AllowedEv == IF Ev.kind = "q" THEN AllowedWithMean(Ev.args[1], Ev.args[2], Ev.args[3], Ev.args[4])
             ELSE Allowed(Ev.ctor, Ev.ft, Ev.args)

CtorRule == VerdictOK(AllowedEv, Ev.verdict) /\ (Ev.verdict = "Ok" => Ev.acc)

TInit == l = 1
TNext == /\ l <= Len(Rec) /\ l' = l + 1
         /\ IF CtorRule THEN TRUE
            ELSE PrintT(<<"TRACE-BAD", l, ToJson([ctor |-> Ev.ctor, ft |-> Ev.ft, verdict |-> Ev.verdict, acc |-> Ev.acc,
                                                   allowed |-> AllowedEv, show |-> Ev.show, src |-> Ev.src, args |-> Ev.args])>>)
TSpec == TInit /\ [][TNext]_l

TraceAccepted ==
    LET d == TLCGet("stats").diameter IN
    IF d - 1 = Len(Rec) THEN TRUE
    ELSE PrintT(<<"TRACE-REJECTED", "first unmatched line", d, ToJson(Rec[d])>>) /\ FALSE
=============================================================================
