------------------------------- MODULE ZigAcc -------------------------------
(***************************************************************************)
(* C06: the two places where the ziggurat compares with the density.       *)
(*                                                                         *)
(* Wedge.  A proposal x = u X[i] with X[i+1] <= |x| < X[i] is accepted iff *)
(*     F[i+1] + (F[i] - F[i+1]) U < pdf(x),   U uniform,                   *)
(* i.e. with probability (pdf(x) - F[i]) / (F[i+1] - F[i]): the ordinate   *)
(* is uniform on the layer [F[i], F[i+1]] and the point is kept iff it     *)
(* lies under the curve - this is what makes the method exact.  For the    *)
(* anchors of ZigAccTable the accepted second words of the real sampler    *)
(* are counted (T of 2^64, a suffix of the word range) and                 *)
(*     | T (F[i+1] - F[i]) - (pdf(xa) - F[i]) 2^64 | <= 2^-34 (F[i+1] - F[i]) 2^64 *)
(* in exact integers, F = the crate's exported table, pdf(xa) from the     *)
(* table (the only place exp enters).                                      *)
(*                                                                         *)
(* Normal tail (Marsaglia): with tail excess x the pair is accepted iff    *)
(* -2 ln U2 >= x^2, i.e. with probability exp(-x^2/2).  Exponential tail:  *)
(* R - ln U, so P(out <= R + t) = 1 - exp(-t).  Both to 2^-40.             *)
(***************************************************************************)
EXTENDS Limb14, ZigAccTable, Integers, Sequences

WedgeOK(T, Fi, Fi1, pdfq) ==
    LET D == SubFrom(Fi1, Fi, 1, 0) IN
    /\ Cmp(Fi, pdfq) <= 0 /\ Cmp(pdfq, Fi1) <= 0                                   \* the anchor lies in the layer
    /\ Cmp(AbsDiff(Mul(T, D), Mul(SubFrom(pdfq, Fi, 1, 0), Pow2(64))), Mul(D, Pow2(64 - 34))) <= 0
Near14(a, b, e) == Cmp(AbsDiff(a, b), Pow2(e)) <= 0
=============================================================================
