SPECIFICATION Spec
INVARIANTS Total NaNRejected OkAlone Emit
CHECK_DEADLOCK FALSE
