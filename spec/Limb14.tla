------------------------------- MODULE Limb14 -------------------------------
(***************************************************************************)
(* Exact arithmetic on non-negative integers of any size, as little-endian *)
(* sequences of base-2^14 limbs (products of two limbs fit TLC's 32-bit    *)
(* integers): schoolbook multiplication, comparison, subtraction.          *)
(* Used for the ziggurat's equal-area equations (ZigTables) and for the    *)
(* rational root-selection rule of the inverse Gaussian (Compose).         *)
(***************************************************************************)
EXTENDS Integers, Sequences

L14 == 16384

\* little-endian base-2^14 arithmetic on sequences of limbs --------------------
RECURSIVE Carry(_, _, _)
Carry(cols, k, c) ==        \* propagate carries through column sums
    IF k > Len(cols) THEN (IF c = 0 THEN <<>> ELSE <<c % L14>> \o Carry(<<>>, 1, c \div L14))
    ELSE LET v == cols[k] + c IN <<v % L14>> \o Carry(cols, k + 1, v \div L14)
ColSum(a, b, k) ==          \* sum of a[i] * b[j] with (i-1) + (j-1) = k-1
    LET RECURSIVE S(_)
        S(i) == IF i > Len(a) THEN 0
                ELSE (IF k - i + 1 >= 1 /\ k - i + 1 <= Len(b) THEN a[i] * b[k - i + 1] ELSE 0) + S(i + 1)
    IN S(1)
Mul(a, b) == Carry([k \in 1..(Len(a) + Len(b) - 1) |-> ColSum(a, b, k)], 1, 0)
Limb(a, k) == IF k <= Len(a) THEN a[k] ELSE 0
RECURSIVE CmpFrom(_, _, _)
CmpFrom(a, b, k) ==         \* -1, 0, 1 comparing from the most significant limb k downwards
    IF k = 0 THEN 0 ELSE IF Limb(a, k) < Limb(b, k) THEN -1 ELSE IF Limb(a, k) > Limb(b, k) THEN 1 ELSE CmpFrom(a, b, k - 1)
Cmp(a, b) == CmpFrom(a, b, IF Len(a) > Len(b) THEN Len(a) ELSE Len(b))
RECURSIVE SubFrom(_, _, _, _)
SubFrom(a, b, k, bw) ==     \* a - b for a >= b
    IF k > Len(a) THEN <<>>
    ELSE LET v == a[k] - Limb(b, k) - bw IN
         IF v < 0 THEN <<v + L14>> \o SubFrom(a, b, k + 1, 1) ELSE <<v>> \o SubFrom(a, b, k + 1, 0)
AbsDiff(a, b) == IF Cmp(a, b) >= 0 THEN SubFrom(a, b, 1, 0) ELSE SubFrom(b, a, 1, 0)
TenTo8 == <<8448, 6103>>    \* 10^8 = 6103 * 2^14 + 8448

RECURSIVE AddFrom(_, _, _, _)
AddFrom(a, b, k, c) ==      \* a + b
    IF k > Len(a) /\ k > Len(b) THEN (IF c = 0 THEN <<>> ELSE <<c>>)
    ELSE LET v == Limb(a, k) + Limb(b, k) + c IN <<v % L14>> \o AddFrom(a, b, k + 1, v \div L14)
Add14(a, b) == AddFrom(a, b, 1, 0)
\* 2^e as limbs
RECURSIVE Zeros(_)
Zeros(n) == IF n = 0 THEN <<>> ELSE <<0>> \o Zeros(n - 1)
Pow2(e) == Zeros(e \div 14) \o <<2 ^ (e % 14)>>
=============================================================================
