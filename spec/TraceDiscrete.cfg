SPECIFICATION TSpec
CONSTANTS
  BinvParams = {}
  HinMaxN = 0
  Slack = FALSE
POSTCONDITION TraceAccepted
CHECK_DEADLOCK FALSE
