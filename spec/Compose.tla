------------------------------- MODULE Compose -------------------------------
(***************************************************************************)
(* C07 / C11: how the crate's samplers are composed from parameter-free    *)
(* draws and from each other.                                              *)
(*                                                                         *)
(* C07.  Sample(fam, shape, loc, scale, stream) = Aff(loc, scale,          *)
(*       Base(fam, shape, stream)) and Words(..) independent of (loc,      *)
(*       scale); Base is an uninterpreted function of the stream, so the   *)
(*       rules relate PAIRS of executions on the same stream:              *)
(*   R1  multiplying location and scale (or min, max, mode) by 2^k         *)
(*       multiplies the sample by 2^k EXACTLY (same sign, same mantissa,   *)
(*       exponent field + k);                                              *)
(*   R2  the same number of RNG words is consumed;                         *)
(*   R3  the sample at (loc, scale) is within Tol(fam) ordinals of         *)
(*       fl(loc + fl(scale * b)), b the sample at (0, 1) on the same       *)
(*       stream (reference: one multiply and one add by the harness);      *)
(*   ZS  Normal::from_zscore on the dyadic lattice k/16 is exactly         *)
(*       mean + std_dev * z; LogNormal is the exponential of Normal.       *)
(* C11.  Dirichlet = stick-breaking over Beta(alpha_i, sum_{j>i} alpha_j)  *)
(*       or normalised Gamma(alpha_i, 1) draws, built from the crate's own *)
(*       public Beta / Gamma; simplex structure; API agreement.            *)
(***************************************************************************)
EXTENDS Ord, Integers, Sequences, Limb14

\* a float decomposed by the harness: [s |-> sign bit, e |-> exponent field, m |-> mantissa limbs, z |-> is zero,
\*                                     n |-> exponent field is neither 0 nor all ones (normal number)]
R1OK(a, b, k) == \/ (a.z /\ b.z)
                 \/ (a.s = b.s /\ a.m = b.m /\ b.e = a.e + k)
R1Judged(a, b, k) == (a.z /\ b.z) \/ (a.n /\ b.n)     \* results leaving the normal range are outside envelope E

\* R1x: the same rule at scales beyond envelope E, for samplers whose last operation is the multiplication by the scale: the image
\* 2^k a of a normal result a is reproduced exactly while its exponent stays in the normal range 1..emax, is the infinity of the
\* same sign when the exponent overflows (that IS the rounding of the map), and is not judged when it underflows or a is not normal
R1xOK(a, b, k, emax) ==
    \/ (a.z /\ b.z)
    \/ (a.n /\ a.e + k >= 1 /\ a.e + k <= emax /\ a.s = b.s /\ a.m = b.m /\ b.e = a.e + k)
    \/ (a.n /\ a.e + k > emax /\ b.s = a.s /\ b.e = emax + 1 /\ b.m = <<0, 0>>)
    \/ (a.n /\ a.e + k < 1)
    \/ (~a.n /\ ~a.z)

Within(a, b, d) == LLE(a, LAdd(b, <<0, 0, d>>)) /\ LLE(b, LAdd(a, <<0, 0, d>>))

\* R3 tolerance in ordinals (ulps): one multiply-add of the reference vs the code's own evaluation order
Tol(fam) == CASE fam \in {"Normal", "Cauchy", "Gumbel", "Frechet", "SkewNormal", "Exp", "Gamma", "Weibull", "Pareto"} -> 2
              [] OTHER -> 4

\* C01, composition layer: a derived distribution is the documented function of the crate's own primitives
\*   ChiSquared(1) = N^2, ChiSquared(k) = Gamma(k/2, 2);  StudentT(nu) = N sqrt(nu / ChiSquared(nu));
\*   FisherF(m, n) = (ChiSquared(m)/m) / (ChiSquared(n)/n);  Pert = min + range * Beta(1 + s(mode-min)/range, 1 + s(max-mode)/range);
\*   SkewNormal by the cited max/min-of-two-normals construction;
\*   Exp(lambda) = Exp1/lambda;  Gamma(1, t) = Exp(1/t);  Gamma(k<1, t) = Gamma(k+1, t) U^(1/k);  Normal(0,1) = StandardNormal
\* Tolerance in ordinals: the reference evaluates the same real expression, possibly associated differently.
WireTol(fam) == CASE fam \in {"ChiSquared", "Gamma(1)", "Normal(0,1)"} -> 1
                  [] fam = "Exp" -> 2
                  [] fam \in {"StudentT", "Pert", "SkewNormal"} -> 4
                  [] fam = "LogNormal(from_mean_cv)" -> 32
                  [] OTHER -> 8

\* ZS: mean = m/16, std_dev = s/16, z = k/16  =>  256 * (mean + std_dev * z) = 16 m + s k   (exact in f32 and f64)
ZScoreOK(m, s, k, r256) == r256 = 16 * m + s * k

\* Triangular(min, max, mode) is the exact quantile transform of one uniform draw f:
\*   f*range < mode-min :  (x - min)^2 = f * range * (mode - min)
\*   otherwise          :  (max - x)^2 = (1 - f) * range * (max - mode)
\* On the lattice f = fn/65536 with integer parameters where the right-hand side is the square of a dyadic,
\* the float evaluation is exact; xq = (x - min)*256 and yq = (max - x)*256 are then integers.
TriOK(mn, mx, md, fn, xq, yq) ==
    LET range == mx - mn IN
    IF fn * range < (md - mn) * 65536
      THEN xq >= 0 /\ xq * xq = fn * range * (md - mn)
      ELSE yq >= 0 /\ yq * yq = (65536 - fn) * range * (mx - md)

\* C11 wiring on dyadic alpha = a[i]/64: the stick-breaking Beta parameters
RECURSIVE TailSum(_, _)
TailSum(a, i) == IF i > Len(a) THEN 0 ELSE a[i] + TailSum(a, i + 1)
SBParams(a) == [i \in 1..(Len(a) - 1) |-> <<a[i], TailSum(a, i + 1)>>]       \* (alpha_i, sum_{j>i} alpha_j)
GNParams(a) == [i \in 1..Len(a) |-> <<a[i], 64>>]                              \* (alpha_i, scale 1)

AllWithin(x, y, d) == Len(x) = Len(y) /\ \A i \in 1..Len(x) : Within(x[i], y[i], d)

(* Michael-Schucany-Haas root selection of the inverse Gaussian, measured: for a fixed normal draw the uniform words that     *)
(* return the first root x are a prefix of the word range with T elements; the documented probability is mu / (mu + x):      *)
(*      | T (mu + x) - mu 2^64 |  <=  tol (mu + x) 2^64                                                                       *)
(* in exact integers (mu, x as floor(v 2^40); tol = 2^-22 for f32: the 24-bit uniform; 2^-26 for f64: the 2^-40 fixed point   *)
(* of x relative to mu >= 2^-10), and the other root is mu^2 / x (within 2 ordinals of the harness's two IEEE operations).   *)
MshTolExp(ft) == IF ft = "f32" THEN 64 - 22 ELSE 64 - 26
MshOK(e) == LET s == Add14(e.muq, e.xq)
                lhs == Mul(e.T, s)
                rhs == Mul(e.muq, Pow2(64))
            IN  /\ e.words_same
                /\ ~e.same_root =>                       \* v = 0: both roots are mu and T says nothing
                     /\ Cmp(AbsDiff(lhs, rhs), Mul(s, Pow2(MshTolExp(e.ft)))) <= 0
                     /\ Within(e.x1, e.other, 2)
=============================================================================
