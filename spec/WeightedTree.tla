--------------------------- MODULE WeightedTree ---------------------------
(***************************************************************************)
(* Specification of rand_distr::weighted::WeightedTreeIndex<W>             *)
(* (src/weighted/weighted_tree.rs).                                        *)
(*                                                                         *)
(* Written to be bound: one action per public call, the concrete           *)
(* representation the code keeps (`sub`, the implicit binary heap of       *)
(* subtotals, 0-based heap index i stored at sub[i+1]) next to the ghost   *)
(* weight list `ws` the properties C09/C10 talk about.  Every action       *)
(* follows the control flow of the code: validity test first, overflow     *)
(* pre-check on the root, then the ancestor walk (index-1)/2.              *)
(*                                                                         *)
(* Weights are integers.  Two special "weights" stand for arguments that   *)
(* the code must reject: NEG (-1, a negative weight) and NAN (-2, a float  *)
(* NaN).  MAXW is W::MAX of an integer weight type; for float types MAXW   *)
(* is chosen beyond reach (checked_add_assign never fails for floats).     *)
(***************************************************************************)
EXTENDS Integers, Sequences, FiniteSets

CONSTANTS MAXW,        \* W::MAX
          MaxLen,      \* bound on the number of weights (exhaustive model)
          PushVals,    \* alphabet of pushed weights  (may contain NEG, NAN)
          UpdVals,     \* alphabet of update weights
          UpdIdx,      \* indices update() is tried on (only those < len are enabled)
          NewLists     \* set of weight lists new() is called with

NEG == -1
NAN == -2

VARIABLES sub,   \* Seq(Int): subtotals, heap layout
          ws,    \* Seq(Int): ghost - the weight list the tree stands for
          res,   \* result of the last call: "Ok" | "InvalidWeight" | "Overflow" | "None" | "Init"
          ret    \* value returned by the last pop (or -1)

vars == <<sub, ws, res, ret>>

---------------------------------------------------------------------------
(* Heap arithmetic, 0-based as in the code                                 *)

Parent(i) == (i - 1) \div 2

RECURSIVE Ancestors(_)
Ancestors(i) == IF i = 0 THEN {} ELSE {Parent(i)} \cup Ancestors(Parent(i))

\* self.subtotal(index): 0 when out of range
Subtotal(s, i) == IF i < Len(s) THEN s[i + 1] ELSE 0

\* self.get(index) = subtotal minus both children
Get(s, i) == s[i + 1] - Subtotal(s, 2 * i + 1) - Subtotal(s, 2 * i + 2)

\* add d to every heap position in I
AddAt(s, I, d) == [k \in 1..Len(s) |-> IF (k - 1) \in I THEN s[k] + d ELSE s[k]]

Valid(w) == w >= 0            \* !(weight >= W::ZERO) rejects negative and NaN

Total(s) == IF Len(s) = 0 THEN 0 ELSE s[1]

\* new(): bottom-up accumulation `for i in (1..n).rev() { sub[parent] += sub[i] }`
\* BuildFrom returns <<subtotals, overflowed>>
RECURSIVE BuildFrom(_, _, _)
BuildFrom(s, i, ovf) ==
    IF i = 0 THEN <<s, ovf>>
    ELSE LET p  == Parent(i)
             v  == s[p + 1] + s[i + 1]
         IN  IF v > MAXW THEN <<s, TRUE>>     \* `?` returns at the first overflow
             ELSE BuildFrom([s EXCEPT ![p + 1] = v], i - 1, ovf)

Build(l) == IF Len(l) = 0 THEN <<l, FALSE>> ELSE BuildFrom(l, Len(l) - 1, FALSE)

\* Independent (declarative) definition used by the invariants
RECURSIVE SubtreeSum(_, _)
SubtreeSum(l, i) == IF i >= Len(l) THEN 0
                    ELSE l[i + 1] + SubtreeSum(l, 2 * i + 1) + SubtreeSum(l, 2 * i + 2)

RECURSIVE SumSeq(_)
SumSeq(l) == IF Len(l) = 0 THEN 0 ELSE Head(l) + SumSeq(Tail(l))

---------------------------------------------------------------------------
(* try_sample: the descent for a target t in 0..total-1.                   *)
(* Returns <<index, residual target>>                                      *)
RECURSIVE Descend(_, _, _)
Descend(s, i, t) ==
    LET li == 2 * i + 1
        ri == 2 * i + 2
        ls == Subtotal(s, li)
    IN  IF t < ls THEN Descend(s, li, t)
        ELSE LET t1 == t - ls
                 rs == Subtotal(s, ri)
             IN  IF t1 < rs THEN Descend(s, ri, t1)
                 ELSE <<i, t1 - rs>>

INSUFFICIENT == -2     \* Err(InsufficientNonZero)
ASSERTPANIC  == -1     \* one of the two post-condition assert!s fails

SampleOutcome(s, t) ==      \* what try_sample returns when random_range yields t
    IF Total(s) = 0 THEN INSUFFICIENT
    ELSE LET d == Descend(s, 0, t)
         IN  IF d[2] >= 0 /\ d[2] < Get(s, d[1]) THEN d[1] ELSE ASSERTPANIC

---------------------------------------------------------------------------
(* Pure step functions: what each public call does to (sub, ws), and what   *)
(* it returns.  The actions below apply them; the invariants quantify over *)
(* every argument of the alphabet in every reachable state.                *)

R(s, l, r, v) == [sub |-> s, ws |-> l, res |-> r, ret |-> v]

NewF(s0, l0, l) ==
    IF \E k \in 1..Len(l) : ~Valid(l[k]) THEN R(s0, l0, "InvalidWeight", -1)
    ELSE LET b == Build(l) IN
         IF b[2] THEN R(s0, l0, "Overflow", -1) ELSE R(b[1], l, "Ok", -1)

PushF(s, l, w) ==
    IF ~Valid(w) THEN R(s, l, "InvalidWeight", -1)
    ELSE IF Len(s) > 0 /\ s[1] + w > MAXW THEN R(s, l, "Overflow", -1)
    ELSE R(AddAt(Append(s, w), Ancestors(Len(s)), w), Append(l, w), "Ok", -1)

PopF(s, l) ==
    IF Len(s) = 0 THEN R(s, l, "None", -1)
    ELSE LET n == Len(s)
             w == s[n]                         \* a leaf: its subtotal is its weight
         IN  R(AddAt(SubSeq(s, 1, n - 1), Ancestors(n - 1), -w), SubSeq(l, 1, n - 1), "Ok", w)

UpdateF(s, l, i, w) ==                         \* requires i < Len(s)
    IF ~Valid(w) THEN R(s, l, "InvalidWeight", -1)
    ELSE LET old == Get(s, i) IN
         IF w > old THEN
              LET d == w - old IN
              IF s[1] + d > MAXW THEN R(s, l, "Overflow", -1)
              ELSE R(AddAt(s, {i} \cup Ancestors(i), d), [l EXCEPT ![i + 1] = w], "Ok", -1)
         ELSE IF w < old THEN
              R(AddAt(s, {i} \cup Ancestors(i), -(old - w)), [l EXCEPT ![i + 1] = w], "Ok", -1)
         ELSE R(s, l, "Ok", -1)

Apply(r) == sub' = r.sub /\ ws' = r.ws /\ res' = r.res /\ ret' = r.ret

Init == /\ sub = <<>> /\ ws = <<>> /\ res = "Init" /\ ret = -1

New(l)       == l \in NewLists /\ Apply(NewF(sub, ws, l))
Push(w)      == w \in PushVals /\ Apply(PushF(sub, ws, w))
Pop          == Len(sub) >= 0 /\ Apply(PopF(sub, ws))
Update(i, w) == i < Len(sub) /\ Apply(UpdateF(sub, ws, i, w))

Next == \/ \E l \in NewLists : New(l)
        \/ \E w \in PushVals : Push(w)
        \/ Pop
        \/ \E i \in UpdIdx, w \in UpdVals : Update(i, w)

Spec == Init /\ [][Next]_vars

---------------------------------------------------------------------------
(* Properties                                                              *)

TypeOK == /\ Len(sub) = Len(ws)
          /\ \A k \in 1..Len(ws) : ws[k] \in 0..MAXW
          /\ \A k \in 1..Len(sub) : sub[k] \in 0..MAXW

\* C09: the representation is the one a fresh build of the list gives, so the
\* tree is indistinguishable from (and == to) WeightedTreeIndex::new(ws)
Canonical == /\ \A i \in 0..(Len(sub) - 1) : sub[i + 1] = SubtreeSum(ws, i)
             /\ ~Build(ws)[2] /\ sub = Build(ws)[1]

\* C09: observers agree with the list
Observers == /\ \A i \in 0..(Len(sub) - 1) : Get(sub, i) = ws[i + 1]
             /\ Total(sub) = SumSeq(ws)

\* C09, per call and for every argument of the alphabet in every reachable state:
\*   an error leaves the structure unchanged; InvalidWeight iff the argument is
\*   negative/NaN; Overflow iff (argument valid and) the resulting total would
\*   exceed MAXW; Ok results carry exactly the list the call describes; pop
\*   returns the last weight.
GoodStep(r, valid, newlist) ==
    /\ (r.res # "Ok") => (r.sub = sub /\ r.ws = ws)
    /\ (r.res = "InvalidWeight") <=> ~valid
    /\ (r.res = "Overflow") <=> (valid /\ SumSeq(newlist) > MAXW)
    /\ (r.res = "Ok") => (r.ws = newlist)

StepProps ==
    /\ \A l \in NewLists :
          GoodStep(NewF(sub, ws, l), \A k \in 1..Len(l) : Valid(l[k]), l)
    /\ \A w \in PushVals : GoodStep(PushF(sub, ws, w), Valid(w), Append(ws, w))
    /\ \A i \in UpdIdx, w \in UpdVals :
          i < Len(sub) => GoodStep(UpdateF(sub, ws, i, w), Valid(w), [ws EXCEPT ![i + 1] = w])
    /\ LET r == PopF(sub, ws) IN
          IF Len(ws) = 0 THEN r.res = "None" /\ r.ws = ws /\ r.sub = sub
          ELSE r.res = "Ok" /\ r.ret = ws[Len(ws)] /\ r.ws = SubSeq(ws, 1, Len(ws) - 1)

\* C10: in every reachable state, the number of targets mapped to index i is ws[i]
Law == LET T == Total(sub) IN
       \A i \in 0..(Len(sub) - 1) :
          Cardinality({t \in 0..(T - 1) : SampleOutcome(sub, t) = i}) = ws[i + 1]

NoAssertPanic == \A t \in 0..(Total(sub) - 1) : SampleOutcome(sub, t) # ASSERTPANIC

LenBound == Len(sub) <= MaxLen
=============================================================================
