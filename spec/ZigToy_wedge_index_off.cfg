SPECIFICATION Spec
CONSTANTS
  M = 48
  Variant = "wedge_index_off"
INVARIANT InLayer
CHECK_DEADLOCK FALSE
