SPECIFICATION Spec
CONSTANTS
  MAXW <- M
  Vectors <- MC_Vectors
INVARIANTS VerdictOK LawEnum LawClosed ZeroNever Reconstruction OddsRange AliasValid NoUnderflow ListDiscipline Emit
PROPERTY Termination
CHECK_DEADLOCK FALSE
