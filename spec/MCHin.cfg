SPECIFICATION Spec
CHECK_DEADLOCK FALSE
