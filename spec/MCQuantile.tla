----------------------------- MODULE MCQuantile -----------------------------
(* Prints the cases of QuantileTable for the harness (one CASE line per case; the harness is given nothing else) *)
EXTENDS Quantile, TLC, Json
VARIABLE c
Init == c = 0
Next == /\ c < Len(QT) /\ c' = c + 1
        /\ PrintT(<<"CASE", ToJson([id |-> QT[c'].id, fam |-> QT[c'].fam, params |-> QT[c'].params,
                                     xs |-> [k \in 1..Len(QT[c'].anchors) |-> QT[c'].anchors[k].x]])>>)
Spec == Init /\ [][Next]_c
=============================================================================
