----------------------------- MODULE MCQuantile -----------------------------
(* Prints the cases of QuantileTable for the harness (one CASE line per case; the harness is given nothing else) *)
EXTENDS Quantile, TLC, Json
VARIABLE c
Init == c = 0
Next == /\ c < Len(QTable) /\ c' = c + 1
        /\ PrintT(<<"CASE", ToJson([id |-> QTable[c'].id, fam |-> QTable[c'].fam, params |-> QTable[c'].params,
                                     xs |-> [k \in 1..Len(QTable[c'].anchors) |-> QTable[c'].anchors[k].x]])>>)
Spec == Init /\ [][Next]_c
=============================================================================
