---------------------------- MODULE TraceSupport ----------------------------
(* C03 / C05 trace validation.  One line per sample() call under a single-  *)
(* word-adversarial stream ("call"), per random-stream block ("block") and  *)
(* per exhaustive 2^24 sweep of an f32 sampler's word ("sweep").  RULE      *)
(* (environment) selects which property's rule is evaluated: "support" or   *)
(* "budget".  Events are independent; violating ones are printed.           *)
EXTENDS Support, Budget, TLC, Json, IOUtils

Rec  == ndJsonDeserialize(IOEnv.TRACE)
Mode == IOEnv.RULE
VARIABLE l
Ev == Rec[l]

Brief == [op |-> Ev.op, fam |-> Ev.fam, ft |-> Ev.ft, label |-> Ev.label, variant |-> Ev.variant,
          detail |-> IF Ev.op = "call" THEN [pos |-> Ev.pos, word |-> Ev.word, wc |-> Ev.wc, res |-> Ev.res, show |-> Ev.show,
                                            ocls |-> Ev.ocls, words |-> Ev.words, us |-> Ev.us, seed |-> Ev.seed]
                     ELSE IF Ev.op = "block" THEN [calls |-> Ev.calls, sum_words |-> Ev.sum_words, max_words |-> Ev.max_words,
                                                   max_us |-> Ev.max_us, failed |-> Ev.failed, outlen |-> Ev.outlen,
                                                   nan |-> Ev.nan, pinf |-> Ev.pinf, ninf |-> Ev.ninf, panic |-> Ev.panic, nonint |-> Ev.nonint,
                                                   zerow |-> Ev.zerow, first_bad |-> Ev.first_bad, offenders |-> Ev.offenders]
                     ELSE [nan |-> Ev.nan, pinf |-> Ev.pinf, ninf |-> Ev.ninf, panic |-> Ev.panic, nonint |-> Ev.nonint,
                           zerow |-> Ev.zerow, offenders |-> Ev.offenders, max_words |-> Ev.max_words]]

\* entries beyond envelope E (variant "beyond-E") are driven only for the termination / budget rule
Rule == IF Mode = "support"
          THEN CASE Ev.variant = "beyond-E" -> TRUE
                 [] Ev.op = "call"  -> (Ev.res = "Timeout") \/ SampleOK(Ev)      \* a hang is C05's business
                 [] Ev.op = "sweep" -> SweepOK(Ev)
                 [] Ev.op = "block" -> SweepOK(Ev)        \* random streams: aggregates over all calls of the block
                 [] OTHER -> TRUE
          ELSE CASE Ev.variant = "beyond-E" -> (Ev.op = "call" => (Ev.res # "Timeout" /\ Ev.us < MaxMicros))   \* only: returns
                 [] Ev.op = "call"  -> CallOK(Ev)
                 [] Ev.op = "block" -> BlockOK(Ev)
                 [] Ev.op = "sweep" -> SweepBudgetOK(Ev)
                 [] OTHER -> TRUE

TInit == l = 1
TNext == /\ l <= Len(Rec) /\ l' = l + 1
         /\ IF Rule THEN TRUE ELSE PrintT(<<"TRACE-BAD", l, ToJson(Brief)>>)
TSpec == TInit /\ [][TNext]_l

TraceAccepted ==
    LET d == TLCGet("stats").diameter IN
    IF d - 1 = Len(Rec) THEN TRUE
    ELSE PrintT(<<"TRACE-REJECTED", "first unmatched line", d, ToJson(Rec[d])>>) /\ FALSE
=============================================================================
