-------------------------- MODULE TraceKolmogorov --------------------------
(* C13 trace validation: "q" events are exact 2^24-sweep counts at the table's anchors; "one"/"mono" events record *)
(* the one-word consumption (the applicability condition of C13) and the shape of S.                                *)
EXTENDS Kolmogorov, TLC, Json, IOUtils

Rec == ndJsonDeserialize(IOEnv.TRACE)
VARIABLE l
Ev == Rec[l]

NonDecr(s) == \A i \in 1..(Len(s) - 1) : LLE(s[i], s[i + 1])
NonIncr(s) == \A i \in 1..(Len(s) - 1) : LLE(s[i + 1], s[i])

QRule == LET c == KCase(Ev.case)  a == c.anchors[Ev.anchor] IN
         /\ Ev.res = "Ok" /\ Ev.ft = "f32" /\ Ev.method = "sweep"
         /\ c.fam = Ev.fam /\ a.x = Ev.x
         /\ KOK(Ev.cnt, a, c)
Rule == CASE Ev.op = "q" -> QRule
          [] Ev.op = "mono" -> Ev.res = "Ok" /\ (IF Ev.dir = 1 THEN NonDecr(Ev.ords) ELSE NonIncr(Ev.ords))
          [] Ev.op = "one" -> Ev.res = "Ok" /\ Ev.multi <= Ev.allowed
          [] Ev.op = "sup" -> SupOK(Ev)
          [] OTHER -> FALSE

TInit == l = 1
TNext == /\ l <= Len(Rec) /\ l' = l + 1
         /\ IF Rule THEN TRUE ELSE PrintT(<<"TRACE-BAD", l, ToJson(Ev)>>)
TSpec == TInit /\ [][TNext]_l
TraceAccepted ==
    LET d == TLCGet("stats").diameter IN
    IF d - 1 = Len(Rec) THEN TRUE
    ELSE PrintT(<<"TRACE-REJECTED", "first unmatched line", d, ToJson(Rec[d])>>) /\ FALSE
=============================================================================
