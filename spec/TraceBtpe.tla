------------------------------ MODULE TraceBtpe ------------------------------
(***************************************************************************)
(* C02, BTPE pointwise (see BtpeTable).  Region 2: the proposal of the     *)
(* anchor's first word is the table's y and the second words accepting it  *)
(* are a prefix of relative length (f(y)/f(m) - 1 + |x - x_m|/p1)/c, f the *)
(* binomial pmf: to 2^-28 (the code evaluates f by the recursion, or by    *)
(* the squeeze and a Stirling series for |y - m| > 20).  Region 1: always  *)
(* accepted; the second words with y >= j have relative length             *)
(* (x_m + u - j)/p1: to 2^-44.                                             *)
(***************************************************************************)
EXTENDS Limb14, BtpeTable, H2peTable, PdTable, MtTable, ChengTable, Rej64Table, GeoTable, BinvTable, HinTable, Integers, Sequences, TLC, Json, IOUtils

TH == "TIER" \in DOMAIN IOEnv /\ IOEnv.TIER = "thorough"
BTabX == IF TH THEN BTabT ELSE BTab
BTabHX == IF TH THEN BTabHT ELSE BTabH
HTabX == IF TH THEN HTabT ELSE HTab
PTabX == IF TH THEN PTabT ELSE PTab
MTabX == IF TH THEN MTabT ELSE MTab
CTabX == IF TH THEN CTabT ELSE CTab
JTabX == IF TH THEN JTabT ELSE JTab
GTabX == IF TH THEN GTabT ELSE GTab
VTabX == IF TH THEN VTabT ELSE VTab
HNTabX == IF TH THEN HNTabT ELSE HNTab
Rec == ndJsonDeserialize(IOEnv.TRACE)
VARIABLE l
Ev == Rec[l]
Near14(a, b, e) == Cmp(AbsDiff(a, b), Pow2(e)) <= 0

Rule == /\ Ev.res = "Ok"
        /\ CASE Ev.op = "btpe2" -> LET a == BTabX[Ev.case].r2[Ev.k] IN
                                   /\ Ev.accepted_at_zero /\ Ev.y = a.y
                                   /\ Near14(Ev.T, a.frac, 64 - 28)
             \* regions 3 / 4 (exponential tails): after the anchor's first word the second words returning y form the interval
             \* [exp(lambda (y - x_l)), min(exp(lambda (y + 1 - x_l)), f(y)/f(m) / ((u - p2) lambda))) (mirrored on the right): both ends to 2^-28
             \* the same for huge n with a moderate mode (proposal as y - m)
             [] Ev.op = "btpe2h" -> LET a == BTabHX[Ev.case].r2[Ev.k] IN
                                    /\ Ev.accepted_at_zero /\ Ev.dy = a.dy
                                    /\ Near14(Ev.T, a.frac, 64 - 28)
             [] Ev.op = "btpet" -> LET a == BTabX[Ev.case].rt[Ev.k] IN
                                   /\ Ev.probe_ok
                                   /\ Near14(Ev.lo, a.lo, 64 - 28) /\ Near14(Ev.hi, a.hi, 64 - 28)
             [] Ev.op = "btpe1" -> LET a == BTabX[Ev.case].r1[Ev.k] IN
                                   /\ Ev.always_two_words /\ Len(Ev.cnts) = Len(a.js)
                                   /\ \A i \in 1..Len(a.js) : Near14(Ev.cnts[i], a.js[i].cnt, 64 - 44)
             \* H2PE (Hypergeometric), region 1: the value returned for the anchor's first word is the table's, and the accepting second
             \* words are a prefix of relative length f(y)/f(m), f the hypergeometric pmf (2^-22: the code's final test uses Stirling's ln v!)
             \* H2PE tails (regions 2 / 3): the second words returning the table's value after the anchor's first word form the documented interval (2^-22)
             [] Ev.op = "h2pet" -> LET a == HTabX[Ev.case].rt[Ev.k] IN
                                   /\ Ev.probe_ok
                                   /\ Near14(Ev.lo, a.lo, 64 - 22) /\ Near14(Ev.hi, a.hi, 64 - 22)
             [] Ev.op = "h2pe1" -> LET a == HTabX[Ev.case].r1[Ev.k] IN
                                   /\ Ev.accepted_at_zero /\ Ev.out = a.out
                                   /\ Near14(Ev.T, a.frac, 64 - 22)
             \* Poisson PD (lambda >= 12), steps S / Q: after a normal deviate with floor k < l the uniform words that return k are a
             \* suffix of relative length 1 - min((lambda - k)^3 / d, 1 - pmf(k)/hat(k)), pmf the Poisson pmf itself (2^-24 f64, 2^-15 f32)
             [] Ev.op = "pd" -> LET a == PTabX[Ev.case].ks[Ev.j] IN
                                /\ Ev.found /\ Ev.k = a.k
                                /\ Near14(Ev.T, a.frac, IF Ev.ft = "f64" THEN 64 - 24 ELSE 64 - 15)
             \* steps E / H: the uniform words accepted after an exponential deviate e form an interval around the middle word with
             \* half-lengths (pmf(k2) - hat(k2)) exp(e) / (2 c) on either side (k2 = floor(lambda + s (1.8 +- e))), clipped to [0, 1/2]
             \* (tolerance 2^-19 / 2^-12: the paper's approximations of the pmf for k >= 10 are good to about 1e-8, and the half-length
             \* amplifies an error of pmf - hat by exp(e) / (2 c) = 4.7 lambda exp(e))
             [] Ev.op = "pdh" -> LET a == PTabX[Ev.case].hs[Ev.h]  tol == IF Ev.ft = "f64" THEN 64 - 19 ELSE 64 - 12 IN
                                 /\ Ev.e_ok
                                 /\ (a.kp >= 0) => (Near14(Ev.ap, a.ap, tol) /\ (Cmp(a.ap, Pow2(tol)) > 0 => Ev.kp = a.kp))
                                 /\ (a.km >= 0) => (Near14(Ev.am, a.am, tol) /\ (Cmp(a.am, Pow2(tol)) > 0 => Ev.km = a.km))
             \* Marsaglia-Tsang (Gamma, shape >= 1): for the normal deviate x the value returned is d (1 + c x)^3 and the accepting uniform words
             \* are a prefix of relative length min(1, exp(x^2/2 + d (1 - v + ln v))) (2^-32 f64 / 2^-14 f32; value: 2^-38 / 2^-16 relative)
             [] Ev.op = "mt" -> LET a == MTabX[Ev.case].xs[Ev.j] IN
                                /\ Ev.x_ok /\ Ev.accepted_at_zero
                                /\ Near14(Ev.T, a.frac, IF Ev.ft = "f64" THEN 64 - 32 ELSE 64 - 14)
                                /\ Cmp(Mul(AbsDiff(Ev.outq, a.outq), Pow2(IF Ev.ft = "f64" THEN 38 ELSE 16)), a.outq) <= 0
             \* Cheng BB / BC (Beta<f64>): for the first uniform u1 the value returned is the table's (2^-44 of 1) and the accepting
             \* second uniform words are a prefix of the relative length the documented tests give (2^-36)
             [] Ev.op = "cheng" -> LET a == CTabX[Ev.case].us[Ev.i] IN
                                   /\ Ev.accepted_at_zero
                                   /\ Near14(Ev.T, a.frac, 64 - 36)
                                   /\ Near14(Ev.xq, a.xq, 60 - 44)
             \* Zipf<f64> / Zeta<f64>: for the first word the proposal is the table's x (where it is below 2^53) and the accepting second
             \* uniform words are a prefix of the documented relative length (2^-40)
             [] Ev.op = "rej64" -> LET a == JTabX[Ev.case].us[Ev.i] IN
                                   /\ Ev.accepted_at_zero
                                   /\ (a.x # "-1") => (Ev.x = a.x)
                                   /\ Near14(Ev.T, a.frac, 64 - 40)
             \* Geometric(p), trivial algorithm (p >= 2/3): exactly (floor(p 2^53) + 1) 2^11 words end the call with the value 0
             [] Ev.op = "geot" -> LET a == GTabX[Ev.case] IN
                                  /\ a.triv /\ Ev.out_ok /\ Cmp(Ev.T, a.succ) = 0
             \* Bringmann-Friedrich: the documented k (read off the largest remainder 2^k - 1; any k gives the documented law, so where the
             \* constructor's comparison with 1/2 is within f64 noise - strict FALSE - a neighbour is accepted) ...
             [] Ev.op = "geok" -> LET a == GTabX[Ev.case] IN
                                  /\ ~a.triv /\ Ev.out_ok /\ (IF a.strict THEN Ev.k = a.k ELSE \E i \in 1..Len(a.ks) : a.ks[i] = Ev.k)
             \* ... the words continuing the D loop are a prefix of relative length (1-p)^(2^k), k the measured one ...
             [] Ev.op = "geopi" -> LET a == GTabX[Ev.case] IN
                                   /\ ~a.triv /\ Ev.out_ok
                                   /\ \E i \in 1..Len(a.ks) : a.ks[i] = Ev.k /\ Near14(Ev.T, a.pifracs[i], 64 - a.pitol)
             \* ... and the uniform words accepting the remainder m are a prefix of relative length (1-p)^m
             [] Ev.op = "geom" -> LET a == GTabX[Ev.case].ms[Ev.i] IN
                                  /\ Ev.out_ok /\ Near14(Ev.T, a.frac, 64 - a.tol)
             \* BINV (Binomial, n min(p, 1-p) < 10): one word per try, value monotone in the word; the one-word returns are a prefix of
             \* W1 words (a try whose search passes 110 is repeated, which conditions the law on the one-word returns; at least half of the words) and those with value <= x a prefix of T[x]:
             \* T[x] / W1 = CDF(x) of the documented law, to 2^-40 (cross-multiplied, exact)
             [] Ev.op = "binv" -> LET a == VTabX[Ev.case] IN
                                  /\ Ev.mono /\ Len(Ev.T) = Len(a.xs)
                                  /\ Cmp(Ev.W1, Pow2(63)) >= 0
                                  /\ \A i \in 1..Len(a.xs) : Cmp(AbsDiff(Mul(Ev.T[i], Pow2(64)), Mul(a.xs[i].cdf, Ev.W1)), Pow2(128 - 40)) <= 0
             \* HIN (Hypergeometric, mode - max(0, k - n2) < 10): one word per call, value monotone in the word (increasing or decreasing,
             \* depending on the reductions): the words with X <= x resp. X >= x are a prefix of relative length P(X <= x) resp. P(X >= x),
             \* to 2^-36 (the constructor's starting value is a product of up to 4N factors, each rounded)
             [] Ev.op = "hin" -> LET a == HNTabX[Ev.case] IN
                                 /\ Ev.mono /\ Ev.one_word /\ Len(Ev.T) = Len(a.xs) /\ Ev.dir \in {"inc", "dec"}
                                 /\ \A i \in 1..Len(a.xs) : Near14(Ev.T[i], IF Ev.dir = "inc" THEN a.xs[i].le ELSE a.xs[i].ge, 64 - 36)
             \* Binomial over random streams returns odd values too (the standard deviation of every probe is far above 1)
             [] Ev.op = "btpeg" -> Ev.tzmin = 0
             [] OTHER -> FALSE

TInit == l = 1
TNext == /\ l <= Len(Rec) /\ l' = l + 1
         /\ IF Rule THEN TRUE ELSE PrintT(<<"TRACE-BAD", l, ToJson(Ev)>>)
TSpec == TInit /\ [][TNext]_l
TraceAccepted ==
    LET d == TLCGet("stats").diameter IN
    IF d - 1 = Len(Rec) THEN TRUE
    ELSE PrintT(<<"TRACE-REJECTED", "first unmatched line", d, ToJson(Rec[d])>>) /\ FALSE
=============================================================================
