------------------------------ MODULE TraceBtpe ------------------------------
(***************************************************************************)
(* C02, BTPE pointwise (see BtpeTable).  Region 2: the proposal of the     *)
(* anchor's first word is the table's y and the second words accepting it  *)
(* are a prefix of relative length (f(y)/f(m) - 1 + |x - x_m|/p1)/c, f the *)
(* binomial pmf: to 2^-28 (the code evaluates f by the recursion, or by    *)
(* the squeeze and a Stirling series for |y - m| > 20).  Region 1: always  *)
(* accepted; the second words with y >= j have relative length             *)
(* (x_m + u - j)/p1: to 2^-44.                                             *)
(***************************************************************************)
EXTENDS Limb14, BtpeTable, H2peTable, Integers, Sequences, TLC, Json, IOUtils

Rec == ndJsonDeserialize(IOEnv.TRACE)
VARIABLE l
Ev == Rec[l]
Near14(a, b, e) == Cmp(AbsDiff(a, b), Pow2(e)) <= 0

Rule == /\ Ev.res = "Ok"
        /\ CASE Ev.op = "btpe2" -> LET a == BTab[Ev.case].r2[Ev.k] IN
                                   /\ Ev.accepted_at_zero /\ Ev.y = a.y
                                   /\ Near14(Ev.T, a.frac, 64 - 28)
             [] Ev.op = "btpe1" -> LET a == BTab[Ev.case].r1[Ev.k] IN
                                   /\ Ev.always_two_words /\ Len(Ev.cnts) = Len(a.js)
                                   /\ \A i \in 1..Len(a.js) : Near14(Ev.cnts[i], a.js[i].cnt, 64 - 44)
             \* H2PE (Hypergeometric), region 1: the value returned for the anchor's first word is the table's, and the accepting second
             \* words are a prefix of relative length f(y)/f(m), f the hypergeometric pmf (2^-22: the code's final test uses Stirling's ln v!)
             [] Ev.op = "h2pe1" -> LET a == HTab[Ev.case].r1[Ev.k] IN
                                   /\ Ev.accepted_at_zero /\ Ev.out = a.out
                                   /\ Near14(Ev.T, a.frac, 64 - 22)
             [] OTHER -> FALSE

TInit == l = 1
TNext == /\ l <= Len(Rec) /\ l' = l + 1
         /\ IF Rule THEN TRUE ELSE PrintT(<<"TRACE-BAD", l, ToJson(Ev)>>)
TSpec == TInit /\ [][TNext]_l
TraceAccepted ==
    LET d == TLCGet("stats").diameter IN
    IF d - 1 = Len(Rec) THEN TRUE
    ELSE PrintT(<<"TRACE-REJECTED", "first unmatched line", d, ToJson(Rec[d])>>) /\ FALSE
=============================================================================
