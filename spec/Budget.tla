------------------------------- MODULE Budget -------------------------------
(***************************************************************************)
(* C05: the budget the property speaks of, fixed a priori (DESIGN §5 C05). *)
(*   - every call returns (no watchdog timeout), below MaxWordsPerCall     *)
(*     words and below the wall-time limit;                                *)
(*   - over random streams the mean number of words per call is at most    *)
(*     MeanWords per scalar output (the largest legitimate mean in the     *)
(*     envelope is Knuth-Poisson, lambda + 1 < 13).                        *)
(***************************************************************************)
EXTENDS Integers

MaxWordsPerCall == 100000
MeanWords       == 40
MaxMicros       == 2000000       \* quick tier wall-time limit per call

CallOK(e)  == /\ e.res # "Timeout"
              /\ e.words < MaxWordsPerCall
              /\ e.us < MaxMicros
BlockOK(e) == /\ e.failed = 0
              /\ e.max_words < MaxWordsPerCall
              /\ e.max_us < MaxMicros
              /\ e.sum_words <= MeanWords * e.outlen * e.calls
SweepBudgetOK(e) == e.max_words < MaxWordsPerCall
=============================================================================
