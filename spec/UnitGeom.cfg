SPECIFICATION Spec
INVARIANTS RegionExact DiscBallInside CircleUnit SphereUnit Words
CHECK_DEADLOCK FALSE
