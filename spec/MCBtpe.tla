------------------------------- MODULE MCBtpe -------------------------------
(* Prints the BTPE anchors of BtpeTable as cases for the harness *)
EXTENDS BtpeTable, Sequences, Integers, TLC, Json
VARIABLE c
Init == c = 0
Next == /\ c < Len(BTab) /\ c' = c + 1
        /\ PrintT(<<"CASE", ToJson([id |-> BTab[c'].id, n |-> BTab[c'].n, p |-> BTab[c'].p,
                                     r2 |-> [k \in 1..Len(BTab[c'].r2) |-> BTab[c'].r2[k].w1],
                                     r1 |-> [k \in 1..Len(BTab[c'].r1) |-> [w1 |-> BTab[c'].r1[k].w1,
                                                                              js |-> [i \in 1..Len(BTab[c'].r1[k].js) |-> BTab[c'].r1[k].js[i].j]]],
                                     rt |-> [k \in 1..Len(BTab[c'].rt) |-> [w1 |-> BTab[c'].rt[k].w1, probe |-> BTab[c'].rt[k].probe, y |-> BTab[c'].rt[k].y]]])>>)
Spec == Init /\ [][Next]_c
=============================================================================
