------------------------------- MODULE MCBtpe -------------------------------
(* Prints the BTPE anchors of BtpeTable as cases for the harness *)
EXTENDS BtpeTable, Sequences, Integers, TLC, Json, IOUtils
TT == IF "TIER" \in DOMAIN IOEnv /\ IOEnv.TIER = "thorough" THEN BTabT ELSE BTab
TH == IF "TIER" \in DOMAIN IOEnv /\ IOEnv.TIER = "thorough" THEN BTabHT ELSE BTabH
VARIABLE c
Init == c = 0
Next == /\ c < Len(TT) + Len(TH) + Len(BTabG) /\ c' = c + 1
        /\ IF c' <= Len(TT)
           THEN PrintT(<<"CASE", ToJson([id |-> TT[c'].id, n |-> TT[c'].n, p |-> TT[c'].p,
                                     r2 |-> [k \in 1..Len(TT[c'].r2) |-> TT[c'].r2[k].w1],
                                     r1 |-> [k \in 1..Len(TT[c'].r1) |-> [w1 |-> TT[c'].r1[k].w1,
                                                                              js |-> [i \in 1..Len(TT[c'].r1[k].js) |-> TT[c'].r1[k].js[i].j]]],
                                     rt |-> [k \in 1..Len(TT[c'].rt) |-> [w1 |-> TT[c'].rt[k].w1, probe |-> TT[c'].rt[k].probe, y |-> TT[c'].rt[k].y]]])>>)
           ELSE IF c' <= Len(TT) + Len(TH)
           THEN LET h == TH[c' - Len(TT)] IN
                PrintT(<<"CASE", ToJson([kernel |-> "btpeh", id |-> h.id, n |-> h.n, p |-> h.p, m |-> h.m,
                                         r2 |-> [k \in 1..Len(h.r2) |-> h.r2[k].w1]])>>)
           ELSE LET g == BTabG[c' - Len(TT) - Len(TH)] IN
                PrintT(<<"CASE", ToJson([kernel |-> "btpeg", id |-> g.id, n |-> g.n, p |-> g.p])>>)
Spec == Init /\ [][Next]_c
=============================================================================
