SPECIFICATION GSpec
CONSTANTS
  MAXW <- M
  MaxLen = 99
  PushVals <- G_PushVals
  UpdVals <- G_UpdVals
  UpdIdx <- G_UpdIdx
  NewLists <- G_NewLists
INVARIANTS Emit
CHECK_DEADLOCK FALSE
