------------------------------ MODULE UnitGeom ------------------------------
(***************************************************************************)
(* C12: UnitDisc, UnitBall (rejection from the square / cube, identity     *)
(* output), UnitCircle (von Neumann: angle doubling of an accepted point)  *)
(* and UnitSphere (Marsaglia 1972, two draws) on the dyadic lattice        *)
(* x = k/16, k in -16..15, in exact integer arithmetic.                    *)
(*                                                                         *)
(* One action per loop iteration of the code: Propose draws the            *)
(* coordinates (one RNG word each), Decide accepts or rejects as the code  *)
(* does.  Every proposal is an equiprobable ticket.                        *)
(***************************************************************************)
EXTENDS Integers, Sequences, FiniteSets

K   == -16..15          \* numerators of the lattice, denominator 16
D2  == 256              \* 16^2 : |x|^2 = (sum of k^2) / 256

Kinds == {"disc", "ball", "circle", "sphere"}
Dim(kind) == IF kind = "ball" THEN 3 ELSE 2     \* coordinates drawn per iteration

VARIABLES kind, pc, k, words, iters
vars == <<kind, pc, k, words, iters>>

SumSq(v) == IF Len(v) = 2 THEN v[1] * v[1] + v[2] * v[2] ELSE v[1] * v[1] + v[2] * v[2] + v[3] * v[3]

\* the acceptance test of the code, for a lattice with squared denominator d2
AcceptD(kd, v, d2) == IF kd \in {"disc", "ball"} THEN SumSq(v) <= d2   \* x1*x1 + x2*x2 (+ x3*x3) <= 1
                      ELSE SumSq(v) < d2                                \* sum < 1   /  !(sum >= 1)
Accept(kd, v) == AcceptD(kd, v, D2)

Init == kind \in Kinds /\ pc = "propose" /\ k = <<>> /\ words = 0 /\ iters = 0

Propose == /\ pc = "propose" /\ iters < (IF kind = "ball" THEN 1 ELSE 2)   \* bound of the exhaustive model
           /\ k' \in [1..Dim(kind) -> K]
           /\ words' = words + Dim(kind) /\ iters' = iters + 1
           /\ pc' = "decide" /\ UNCHANGED kind
Decide  == /\ pc = "decide"
           /\ pc' = IF Accept(kind, k) THEN "done" ELSE "propose"
           /\ UNCHANGED <<kind, k, words, iters>>
Next == Propose \/ Decide
Spec == Init /\ [][Next]_vars

---------------------------------------------------------------------------
(* Outputs, as exact rationals                                             *)
\* circle: ((x1^2 - x2^2)/s, 2 x1 x2 / s); numerators over the common denominator s = k1^2 + k2^2
CircNum(v) == <<v[1] * v[1] - v[2] * v[2], 2 * v[1] * v[2]>>
\* sphere: (x1 f, x2 f, 1 - 2 s'), f = 2 sqrt(1 - s'), s' = s/256: squares of the first two
\* components over 256^2, third component over 256
SphSq(v)   == LET s == SumSq(v) IN <<4 * v[1] * v[1] * (D2 - s), 4 * v[2] * v[2] * (D2 - s)>>   \* / 256^2
SphThird(v) == D2 - 2 * SumSq(v)                                                               \* / 256

---------------------------------------------------------------------------
(* Invariants                                                              *)
Done == pc = "done"
\* disc / ball: the output is the proposal itself and lies in the closed unit disc / ball;
\* a rejected proposal lies outside: uniform proposal + exact region + identity output
RegionExact == pc \in {"done", "propose"} /\ k # <<>> =>
                  IF pc = "done" THEN Accept(kind, k) ELSE ~Accept(kind, k)
DiscBallInside == (Done /\ kind \in {"disc", "ball"}) => SumSq(k) <= D2
\* circle: the image has norm exactly 1 (s > 0; the all-zero proposal needs two adversarial words)
CircleUnit == (Done /\ kind = "circle" /\ SumSq(k) > 0) =>
                 LET n == CircNum(k) s == SumSq(k) IN n[1] * n[1] + n[2] * n[2] = s * s
\* sphere: squared components sum to exactly 1
SphereUnit == (Done /\ kind = "sphere") =>
                 LET q == SphSq(k) t == SphThird(k) IN q[1] + q[2] + t * t = D2 * D2
\* word accounting: Dim words per iteration
Words == words = Dim(kind) * iters
=============================================================================
