------------------------------ MODULE MCZigAcc ------------------------------
(* Prints the anchors of ZigAccTable as cases for the harness *)
EXTENDS ZigAcc, TLC, Json
VARIABLE c
NW == Len(ZWedge)  NN == Len(ZNTail)  NE == Len(ZETail)
Init == c = 0
Next == /\ c < NW + NN + NE /\ c' = c + 1
        /\ PrintT(<<"CASE", ToJson(
             IF c' <= NW THEN [kind |-> "wedge", id |-> c', tab |-> ZWedge[c'].tab, i |-> ZWedge[c'].i, k |-> ZWedge[c'].k, xa |-> ZWedge[c'].xa, t |-> ""]
             ELSE IF c' <= NW + NN THEN [kind |-> "ntail", id |-> c' - NW, tab |-> "norm", i |-> 0, k |-> 0, xa |-> ZNTail[c' - NW].xa, t |-> ""]
             ELSE [kind |-> "etail", id |-> c' - NW - NN, tab |-> "exp", i |-> 0, k |-> 0, xa |-> "", t |-> ZETail[c' - NW - NN].t])>>)
Spec == Init /\ [][Next]_c
=============================================================================
