------------------------------ MODULE MCRej64 ------------------------------
(* Prints the Zipf<f64> / Zeta<f64> anchors of Rej64Table as cases for the harness *)
EXTENDS Rej64Table, Sequences, Integers, TLC, Json
VARIABLE c
Init == c = 0
Next == /\ c < Len(JTab) /\ c' = c + 1
        /\ PrintT(<<"CASE", ToJson([kernel |-> "rej64", id |-> JTab[c'].id, fam |-> JTab[c'].fam, params |-> JTab[c'].params, ws |-> [i \in 1..Len(JTab[c'].us) |-> JTab[c'].us[i].w]])>>)
Spec == Init /\ [][Next]_c
=============================================================================
