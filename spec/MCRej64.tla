------------------------------ MODULE MCRej64 ------------------------------
(* Prints the Zipf<f64> / Zeta<f64> anchors of Rej64Table as cases for the harness *)
EXTENDS Rej64Table, Sequences, Integers, TLC, Json, IOUtils
TT == IF "TIER" \in DOMAIN IOEnv /\ IOEnv.TIER = "thorough" THEN JTabT ELSE JTab
VARIABLE c
Init == c = 0
Next == /\ c < Len(TT) /\ c' = c + 1
        /\ PrintT(<<"CASE", ToJson([kernel |-> "rej64", id |-> TT[c'].id, fam |-> TT[c'].fam, params |-> TT[c'].params, ws |-> [i \in 1..Len(TT[c'].us) |-> TT[c'].us[i].w]])>>)
Spec == Init /\ [][Next]_c
=============================================================================
