----------------------------- MODULE Rejection2 -----------------------------
(***************************************************************************)
(* C02, two-word rejection samplers (Zipf: rejection-inversion; Zeta:      *)
(* Devroye), f32.  One loop iteration draws a proposal word u and an       *)
(* acceptance word y, each one of N = 2^24 equiprobable values, and        *)
(* returns X(u) iff y < acc(u); otherwise the next iteration starts from   *)
(* fresh words.  With iterations independent the induced law is            *)
(*     P(X = k) = A_k / A,   A_k = SUM { acc(u) : X(u) = k },  A = SUM A_k *)
(* an exact rational over the 2^48 tickets (u, y).  The design-level       *)
(* statement (the loop's return law is A_k / A) is checked by enumeration  *)
(* of ticket sequences on a small instance in RejToy.tla.                  *)
(* The implementation-level statement (TraceRejection) compares the        *)
(* measured A_k / A with the documented pmf of RejectionTable.             *)
(***************************************************************************)
EXTENDS Ord, RejectionTable, BetaTable, Sequences, Integers, FiniteSets, IOUtils

RT == IF "TIER" \in DOMAIN IOEnv /\ IOEnv.TIER = "thorough" THEN RTableT ELSE RTable

\* limb shift right by k < 21 bits
LShr(a, k) == LET p == 2 ^ k  q == 2 ^ (21 - k) IN
              <<a[1] \div p, (a[2] \div p) + (a[1] % p) * q, (a[3] \div p) + (a[2] % p) * q>>

Near(a, b, d) == LLE(a, LAdd(b, d)) /\ LLE(b, LAdd(a, d))

\* tolerance for one probability p (units of 2^-64): 2^-20 absolute (f32 lattice and rounding of the proposal's
\* quantile at cell boundaries: a cell boundary moves by a few of the 2^24 proposal steps) plus 2^-14 relative
\* (f32 evaluation of powf/exp/ln in the acceptance ratio: relative error of a few 2^-24, amplified by s <= 10)
Tol(p) == LAdd(<<4, 0, 0>>, LShr(p, 14))       \* <<4,0,0>> = 2^44 = 2^-20 * 2^64

BT == IF "TIER" \in DOMAIN IOEnv /\ IOEnv.TIER = "thorough" THEN BTableT ELSE BTable
RCase(id) == RT[id]
BCase(id) == BT[id]

\* continuous output (Beta, Cheng BB/BC: the output is a function of the proposal word alone, the acceptance region a prefix
\* of the acceptance lattice): the cumulative mass C[j] = A_{<= x_j} / A at the anchors of BetaTable must lie in the bracket
\* [F(x(1 - 2^-20)), F(x(1 + 2^-20))] of the documented CDF, up to 2^-20 (16 steps of the 2^-24 uniform: the f32 rounding of
\* the output near the ends of (0, 1) and of exp/ln in the acceptance test)
CSlack == <<4, 0, 0>>
CdfOK(C, c) == /\ Len(C) = Len(c.anchors)
               /\ \A j \in 1..Len(C) : LLE(c.anchors[j].lo, LAdd(C[j], CSlack)) /\ LLE(C[j], LAdd(c.anchors[j].hi, CSlack))
BTableOK == \A c \in 1..Len(BT) :
               LET A == BT[c].anchors IN
               /\ BT[c].id = c /\ Len(A) >= 5
               /\ \A k \in 1..Len(A) : LLE(A[k].lo, A[k].hi)
               /\ \A k \in 1..(Len(A) - 1) : LLE(A[k].lo, A[k + 1].lo) /\ LLE(A[k].hi, A[k + 1].hi)
ASSUME BTableOK

PmfOK(P, tail, c) ==
    /\ Len(P) = Len(c.pmf)
    /\ \A k \in 1..Len(P) : Near(P[k], c.pmf[k], Tol(c.pmf[k]))
    /\ Near(tail, c.tail, Tol(c.tail))

\* table sanity: masses sum to one (within the floor of each entry), nonincreasing in k for s >= 0
RECURSIVE LSum(_)
LSum(s) == IF Len(s) = 0 THEN LZero ELSE LAdd(Head(s), LSum(Tail(s)))
OneL == <<4194304, 0, 0>>
RTableOK == \A c \in 1..Len(RT) :
               LET r == RT[c]  tot == LAdd(LSum(r.pmf), r.tail) IN
               /\ r.id = c
               /\ Near(tot, OneL, <<0, 0, 64>>)
               /\ \A k \in 1..(Len(r.pmf) - 1) : LLE(r.pmf[k + 1], r.pmf[k])
ASSUME RTableOK

=============================================================================
