------------------------------ MODULE MCCheng ------------------------------
(* Prints the Cheng BB / BC anchors of ChengTable as cases for the harness *)
EXTENDS ChengTable, Sequences, Integers, TLC, Json
VARIABLE c
Init == c = 0
Next == /\ c < Len(CTab) /\ c' = c + 1
        /\ PrintT(<<"CASE", ToJson([kernel |-> "cheng", id |-> CTab[c'].id, a |-> CTab[c'].a, b |-> CTab[c'].b, js |-> [i \in 1..Len(CTab[c'].us) |-> CTab[c'].us[i].j]])>>)
Spec == Init /\ [][Next]_c
=============================================================================
