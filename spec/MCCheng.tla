------------------------------ MODULE MCCheng ------------------------------
(* Prints the Cheng BB / BC anchors of ChengTable as cases for the harness *)
EXTENDS ChengTable, Sequences, Integers, TLC, Json, IOUtils
TT == IF "TIER" \in DOMAIN IOEnv /\ IOEnv.TIER = "thorough" THEN CTabT ELSE CTab
VARIABLE c
Init == c = 0
Next == /\ c < Len(TT) /\ c' = c + 1
        /\ PrintT(<<"CASE", ToJson([kernel |-> "cheng", id |-> TT[c'].id, sh |-> TT[c'].sh, a |-> TT[c'].a, b |-> TT[c'].b, js |-> [i \in 1..Len(TT[c'].us) |-> TT[c'].us[i].j]])>>)
Spec == Init /\ [][Next]_c
=============================================================================
