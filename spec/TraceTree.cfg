SPECIFICATION TSpec
CONSTANTS
  MAXW <- TraceM
  MaxLen = 0
  PushVals = {}
  UpdVals = {}
  UpdIdx = {}
  NewLists = {}
INVARIANTS TypeOK Canonical Observers
POSTCONDITION TraceAccepted
CHECK_DEADLOCK FALSE
