------------------------------- MODULE MCBeta -------------------------------
(* Prints the cases of BetaTable for the harness *)
EXTENDS Rejection2, TLC, Json
VARIABLE c
Init == c = 0
Next == /\ c < Len(BT) /\ c' = c + 1
        /\ PrintT(<<"CASE", ToJson([id |-> BT[c'].id, fam |-> BT[c'].fam, params |-> BT[c'].params,
                                     xs |-> [k \in 1..Len(BT[c'].anchors) |-> BT[c'].anchors[k].x]])>>)
Spec == Init /\ [][Next]_c
=============================================================================
