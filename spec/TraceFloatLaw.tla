---------------------------- MODULE TraceFloatLaw ----------------------------
(***************************************************************************)
(* C10 with FLOAT weights: the exact induced law of                        *)
(* WeightedTreeIndex<f32 / f64>::sample after construction, push, pop and  *)
(* update histories.  sample() consumes one word and the words returning   *)
(* index k form one interval of the word range; the harness locates every  *)
(* change point by bisection and reports the interval lengths len[k] (of   *)
(* 2^64) together with the weights w[k] (multiples of 2^-8 with 12         *)
(* significant bits: exact in both float types, as integers wq = 256 w).   *)
(* The documented law P(k) = w[k] / W holds iff                            *)
(*      | len[k] W - wq[k] 2^64 |  <=  tol W 2^64                          *)
(* in exact integers; tol = 2^-40 for f64 (rounding of the subtotals after *)
(* a history, the 52-bit uniform), 2^-19 for f32 (23-bit uniform).         *)
(* A zero weight must have an empty interval.                              *)
(***************************************************************************)
EXTENDS Limb14, Integers, Sequences, TLC, Json, IOUtils

Rec == ndJsonDeserialize(IOEnv.TRACE)
VARIABLE l
Ev == Rec[l]

RECURSIVE Sum14(_)
Sum14(s) == IF Len(s) = 0 THEN <<0>> ELSE Add14(Head(s), Sum14(Tail(s)))
TolExp(ft) == IF ft = "f32" THEN 64 - 19 ELSE 64 - 40

(* C08 with FLOAT weights ("alaw"): WeightedAliasIndex::sample draws a column with its first word and compares a uniform  *)
(* draw of its second word with the column's threshold.  The column draw is rand's Uniform<u32> (rejection makes every   *)
(* column exactly equally likely: trusted base; the measured column widths c_i are only checked to be 2^64 / n within     *)
(* 2^-28).  Per column the harness reports the value o0 returned for the smallest second word, the value o1 for the       *)
(* largest, and the number T of second words returning o0 (a prefix).  The mass of index k is                             *)
(*      (1 / n) SUM_i (T_i [o0_i = k] + (2^64 - T_i) [o1_i = k]) / 2^64                                                   *)
(* and must equal w_k / W:  | mass_k W - n w_k 2^64 | <= tol n W 2^64, tol = 2^-38 (f64) / 2^-18 (f32), exact integers.   *)
ColMass(col, k) == LET a == IF col.o0 = k THEN col.T ELSE <<0>>
                       b == IF col.o1 = k THEN SubFrom(Pow2(64), col.T, 1, 0) ELSE <<0>>
                   IN  Add14(a, b)
RECURSIVE MassSum(_, _)
MassSum(cols, k) == IF Len(cols) = 0 THEN <<0>> ELSE Add14(ColMass(Head(cols), k), MassSum(Tail(cols), k))
RECURSIVE CSum(_)
CSum(cols) == IF Len(cols) = 0 THEN <<0>> ELSE Add14(Head(cols).c, CSum(Tail(cols)))
ATolExp(ft) == IF ft = "f32" THEN 64 - 18 ELSE 64 - 38
NL(n) == <<n>>                                                                      \* n < 2^14 as a one-limb number
AliasRule == /\ Ev.res = "Ok" /\ Len(Ev.wq) = Ev.n /\ Len(Ev.cols) = Ev.n
             /\ Cmp(CSum(Ev.cols), Pow2(64)) = 0                                  \* the columns partition the first word's range
             /\ \A i \in 1..Len(Ev.cols) :
                   /\ Ev.cols[i].two_words /\ Ev.cols[i].o0 < Ev.n /\ Ev.cols[i].o1 < Ev.n /\ Cmp(Ev.cols[i].T, Pow2(64)) <= 0
                   /\ Cmp(AbsDiff(Mul(Ev.cols[i].c, NL(Ev.n)), Pow2(64)), Mul(NL(Ev.n), Pow2(36))) <= 0     \* width 2^64 / n within 2^-28
             /\ LET W == Sum14(Ev.wq) IN
                \A k \in 1..Ev.n :
                   LET mass == MassSum(Ev.cols, k - 1) IN
                   /\ Cmp(AbsDiff(Mul(mass, W), Mul(Mul(Ev.wq[k], NL(Ev.n)), Pow2(64))), Mul(Mul(W, NL(Ev.n)), Pow2(ATolExp(Ev.ft)))) <= 0
                   /\ (Cmp(Ev.wq[k], <<0>>) = 0) => (Cmp(mass, <<0>>) = 0)       \* a zero weight is never returned

TreeRule == /\ Ev.res = "Ok"
        /\ Ev.intervals                                   \* every index's preimage is a single interval, every output < len
        /\ Len(Ev.len) = Ev.n /\ Len(Ev.wq) = Ev.n
        /\ Cmp(Sum14(Ev.len), Pow2(64)) = 0               \* the intervals partition the word range
        /\ LET W == Sum14(Ev.wq) IN
           \A k \in 1..Ev.n :
              /\ Cmp(AbsDiff(Mul(Ev.len[k], W), Mul(Ev.wq[k], Pow2(64))), Mul(W, Pow2(TolExp(Ev.ft)))) <= 0
              /\ (Cmp(Ev.wq[k], <<0>>) = 0) => (Cmp(Ev.len[k], <<0>>) = 0)

Rule == CASE Ev.op = "flaw" -> TreeRule [] Ev.op = "alaw" -> AliasRule [] OTHER -> FALSE

TInit == l = 1
TNext == /\ l <= Len(Rec) /\ l' = l + 1
         /\ IF Rule THEN TRUE ELSE PrintT(<<"TRACE-BAD", l, ToJson(Ev)>>)
TSpec == TInit /\ [][TNext]_l
TraceAccepted ==
    LET d == TLCGet("stats").diameter IN
    IF d - 1 = Len(Rec) THEN TRUE
    ELSE PrintT(<<"TRACE-REJECTED", "first unmatched line", d, ToJson(Rec[d])>>) /\ FALSE
=============================================================================
