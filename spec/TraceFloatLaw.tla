---------------------------- MODULE TraceFloatLaw ----------------------------
(***************************************************************************)
(* C10 with FLOAT weights: the exact induced law of                        *)
(* WeightedTreeIndex<f32 / f64>::sample after construction, push, pop and  *)
(* update histories.  sample() consumes one word and the words returning   *)
(* index k form one interval of the word range; the harness locates every  *)
(* change point by bisection and reports the interval lengths len[k] (of   *)
(* 2^64) together with the weights w[k] (multiples of 2^-8 with 12         *)
(* significant bits: exact in both float types, as integers wq = 256 w).   *)
(* The documented law P(k) = w[k] / W holds iff                            *)
(*      | len[k] W - wq[k] 2^64 |  <=  tol W 2^64                          *)
(* in exact integers; tol = 2^-40 for f64 (rounding of the subtotals after *)
(* a history, the 52-bit uniform), 2^-19 for f32 (23-bit uniform).         *)
(* A zero weight must have an empty interval.                              *)
(***************************************************************************)
EXTENDS Limb14, Integers, Sequences, TLC, Json, IOUtils

Rec == ndJsonDeserialize(IOEnv.TRACE)
VARIABLE l
Ev == Rec[l]

RECURSIVE Sum14(_)
Sum14(s) == IF Len(s) = 0 THEN <<0>> ELSE Add14(Head(s), Sum14(Tail(s)))
TolExp(ft) == IF ft = "f32" THEN 64 - 19 ELSE 64 - 40

Rule == /\ Ev.res = "Ok"
        /\ Ev.intervals                                   \* every index's preimage is a single interval, every output < len
        /\ Len(Ev.len) = Ev.n /\ Len(Ev.wq) = Ev.n
        /\ Cmp(Sum14(Ev.len), Pow2(64)) = 0               \* the intervals partition the word range
        /\ LET W == Sum14(Ev.wq) IN
           \A k \in 1..Ev.n :
              /\ Cmp(AbsDiff(Mul(Ev.len[k], W), Mul(Ev.wq[k], Pow2(64))), Mul(W, Pow2(TolExp(Ev.ft)))) <= 0
              /\ (Cmp(Ev.wq[k], <<0>>) = 0) => (Cmp(Ev.len[k], <<0>>) = 0)

TInit == l = 1
TNext == /\ l <= Len(Rec) /\ l' = l + 1
         /\ IF Rule THEN TRUE ELSE PrintT(<<"TRACE-BAD", l, ToJson(Ev)>>)
TSpec == TInit /\ [][TNext]_l
TraceAccepted ==
    LET d == TLCGet("stats").diameter IN
    IF d - 1 = Len(Rec) THEN TRUE
    ELSE PrintT(<<"TRACE-REJECTED", "first unmatched line", d, ToJson(Rec[d])>>) /\ FALSE
=============================================================================
