------------------------------ MODULE ZigTables ------------------------------
(***************************************************************************)
(* C06, sub-claim 2: the four 257-entry ziggurat tables and the two tail   *)
(* constants satisfy the structural ziggurat equations - exhaustively, in  *)
(* exact arithmetic.                                                       *)
(*                                                                         *)
(* The harness exports (through the cfg(rand_distr_verif) re-export) every *)
(* entry as its monotone ordinal (limbs, Ord.tla) and as a fixed-point     *)
(* integer floor(x * 2^40) resp. floor(f * 2^45) in little-endian base     *)
(* 2^14 limbs.  Checked here:                                              *)
(*   X strictly decreasing, F strictly increasing, X[256] = 0, F[256] = 1, *)
(*   X[1] = R                                                (ordinals)    *)
(*   equal areas: X[i] * (F[i+1] - F[i]) for i = 1..255 and X[0] * F[1]    *)
(*   all agree with the first one to 1e-8 relative (schoolbook             *)
(*   multiplication on limbs: this is the generator's recurrence           *)
(*   f(x_i) = v/x_{i-1} + f(x_{i-1}) with f eliminated - no exp needed).   *)
(* Values: every X[i] and F[i] agrees to 2^-30 with ZigRefTable, the       *)
(* ziggurat of the density computed independently (mpmath) from R alone.   *)
(***************************************************************************)
EXTENDS Ord, TLC, Json, IOUtils, ZigRefTable, Limb14

Tab == ndJsonDeserialize(IOEnv.TABLE)      \* one record per (table, i): [tab, i, xo, fo, xq, fq], plus R records

\* table access -------------------------------------------------------------------
\* file layout: norm entries 0..256, exp entries 0..256, then the two R records
Entry(tab, i) == Tab[(IF tab = "norm" THEN 0 ELSE 257) + i + 1]
RConst(tab)   == Tab[514 + (IF tab = "norm" THEN 1 ELSE 2)]
Layout == /\ Len(Tab) = 516
          /\ \A tab \in {"norm", "exp"} : /\ \A i \in 0..256 : Entry(tab, i).kind = "entry" /\ Entry(tab, i).tab = tab /\ Entry(tab, i).i = i
                                          /\ RConst(tab).kind = "R" /\ RConst(tab).tab = tab

Area(tab, i) ==             \* i = 0: X[0] * F[1];  i >= 1: X[i] * (F[i+1] - F[i])     (scaled by 2^85)
    IF i = 0 THEN Mul(Entry(tab, 0).xq, Entry(tab, 1).fq)
    ELSE Mul(Entry(tab, i).xq, SubFrom(Entry(tab, i + 1).fq, Entry(tab, i).fq, 1, 0))

Monotone(tab) == \A i \in 0..255 : /\ LLT(Entry(tab, i + 1).xo, Entry(tab, i).xo)     \* X strictly decreasing
                                   /\ LLT(Entry(tab, i).fo, Entry(tab, i + 1).fo)     \* F strictly increasing
EndPoints(tab) == /\ LEQ(Entry(tab, 256).xo, FZero)
                  /\ LEQ(Entry(tab, 256).fo, FOne("f64"))
                  /\ LEQ(Entry(tab, 1).xo, RConst(tab).ro)
EqualAreas(tab) == LET ref == Area(tab, 1) IN
                   \A i \in 0..255 : Cmp(Mul(AbsDiff(Area(tab, i), ref), TenTo8), ref) <= 0

\* values against the independently computed ziggurat: |X - Xref| <= 2^-30 (1024 units of 2^-40), |F - Fref| <= 2^-30 (32768 units of 2^-45)
RefOK(tab, i) == /\ Cmp(AbsDiff(Entry(tab, i).xq, ZRef[tab][i + 1].xq), <<1024>>) <= 0
                 /\ Cmp(AbsDiff(Entry(tab, i).fq, ZRef[tab][i + 1].fq), <<0, 2>>) <= 0

TablesOK == \A tab \in {"norm", "exp"} : Monotone(tab) /\ EndPoints(tab) /\ EqualAreas(tab) /\ \A i \in 0..256 : RefOK(tab, i)

\* a one-state "specification": the equations are evaluated as an invariant of the initial state,
\* and the first violated table/index is reported
VARIABLE done
Init == done = FALSE
Next == done' = TRUE
Spec == Init /\ [][Next]_done
Report == LET bad == {<<tab, i, what>> \in {"norm", "exp"} \X (0..255) \X {"mono", "area", "value"} :
                        IF what = "value" THEN ~RefOK(tab, i) \/ (i = 255 /\ ~RefOK(tab, 256))
                        ELSE IF what = "mono" THEN ~(LLT(Entry(tab, i + 1).xo, Entry(tab, i).xo) /\ LLT(Entry(tab, i).fo, Entry(tab, i + 1).fo))
                        ELSE Cmp(Mul(AbsDiff(Area(tab, i), Area(tab, 1)), TenTo8), Area(tab, 1)) > 0}
          IN  IF Layout /\ bad = {} /\ (\A tab \in {"norm", "exp"} : EndPoints(tab)) THEN TRUE
              ELSE PrintT(<<"TABLE-BAD", ToJson([bad |-> bad, endpoints |-> [tab \in {"norm", "exp"} |-> EndPoints(tab)]])>>) /\ FALSE
=============================================================================
