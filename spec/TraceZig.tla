------------------------------- MODULE TraceZig -------------------------------
(* C06 trace validation: StandardNormal / Exp1 (f64 and f32) under scripted first  *)
(* words covering all 256 layers x {u min, just below / at / just above the        *)
(* rectangle edge, max, both signs} and random words.  Each recorded call carries   *)
(* the layer bits and sign bit of its first word, the words consumed, and the       *)
(* result (ordinal limbs of |out|, sign, f32 companion).                            *)
EXTENDS Ziggurat, TLC, Json, IOUtils

Rec == ndJsonDeserialize(IOEnv.TRACE)
Tab == ndJsonDeserialize(IOEnv.TABLE)
XTab(dist) == [k \in 1..257 |-> Tab[(IF dist = "norm" THEN 0 ELSE 257) + k].xo]      \* XTab[i+1] = ordinal of x_tab[i]
RLim(dist) == Tab[514 + (IF dist = "norm" THEN 1 ELSE 2)].ro
VARIABLE l
Ev == Rec[l]
Within(a, b, d) == LLE(a, LAdd(b, <<0, 0, d>>)) /\ LLE(b, LAdd(a, <<0, 0, d>>))

Rule ==
    /\ Ev.res = "Ok"
    /\ Ev.single =>                                     \* the call finished within its first loop iteration (guard)
         /\ FirstIterationOK(Ev.dist, Ev.i, Ev.words, Ev.absout, XTab(Ev.dist), RLim(Ev.dist))
         /\ (Ev.dist = "norm" /\ ~LEQ(Ev.absout, FZero)) => (Ev.neg = Ev.uneg)      \* sign of the result = sign of u
         /\ (Ev.dist = "exp") => ~Ev.neg
    /\ Ev.f32ok                                         \* the f32 sampler returns the rounding of the f64 one, same words
    \* scripted extreme classes: the outcome follows from monotonicity of the density alone
    /\ (Ev.tag = "wedge U=0")      => Ev.words >= 3                   \* f[i+1] < pdf(x) cannot hold for x >= x[i+1]: rejected
    /\ (Ev.tag = "wedge U=max")    => Ev.words = 2                    \* ~f[i] < pdf(x) just above x[i+1]: accepted
    /\ (Ev.tag = "tail x~0 y=min") => (Ev.words = 3 /\ Within(Ev.absout, RLim(Ev.dist), 2))
    /\ (Ev.tag = "tail x big y~0") => Ev.words >= 5                   \* -2y < x^2: draw again
    \* a rejected wedge proposal is followed by a fresh word whose low 8 bits select the layer of the next iteration
    /\ (Ev.tag = "relayer")        => (Ev.words = 3 /\ Ev.jfound = Ev.l2)
    /\ (Ev.tag = "tail U=max")     => (Ev.words = 2 /\ Within(Ev.absout, RLim(Ev.dist), 2))

TInit == l = 1
TNext == /\ l <= Len(Rec) /\ l' = l + 1
         /\ IF Rule THEN TRUE ELSE PrintT(<<"TRACE-BAD", l, ToJson(Ev)>>)
TSpec == TInit /\ [][TNext]_l
TraceAccepted ==
    LET d == TLCGet("stats").diameter IN
    IF d - 1 = Len(Rec) THEN TRUE
    ELSE PrintT(<<"TRACE-REJECTED", "first unmatched line", d, ToJson(Rec[d])>>) /\ FALSE
=============================================================================
