------------------------------ MODULE MCAlias ------------------------------
(* Exhaustive instance of WeightedAlias (C08): every weight vector of      *)
(* length <= MAXLEN over {0,1,2,3, MAX/len, MAX/len + 1} (plus negative and *)
(* NaN entries for short vectors).  At "done" the vector is also printed   *)
(* with the observations the specification predicts, for replay into the   *)
(* real type (the design run is its own behaviour generator: no history    *)
(* variable is needed, the state holds the argument).                      *)
EXTENDS WeightedAlias, TLC, Json, IOUtils

M        == atoi(IOEnv.M)
EnvLen   == atoi(IOEnv.MAXLEN)
EmitOn   == IOEnv.EMIT = "1"

Alpha(len) == {0, 1, 2, 3, M \div len, (M \div len) + 1} \cup (IF len <= 3 THEN {NEG, NAN} ELSE {})
VecOfLen(len) == IF len = 0 THEN {<<>>} ELSE [1..len -> Alpha(len)]
MC_Vectors == UNION {VecOfLen(len) : len \in 0..EnvLen}

LawEnum == (n * S <= 4000) => Law

Emit == (pc = "done" /\ EmitOn) =>
          PrintT(<<"REPLAY", ToJson([w |-> w, verdict |-> verdict, q |-> MaxWeightSize(n),
                                     tickets |-> IF verdict = "Ok" THEN [i \in 1..n |-> n * w[i]] ELSE <<>>,
                                     sum |-> IF verdict = "Ok" THEN S ELSE 0])>>)
=============================================================================
