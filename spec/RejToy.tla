------------------------------- MODULE RejToy -------------------------------
(***************************************************************************)
(* Design level of Rejection2: the rejection loop                          *)
(*     loop { u <- 1..N;  y <- 0..M-1;  if y < acc[u] return u }           *)
(* on a small instance, for EVERY acceptance table acc \in [1..N -> 0..M]. *)
(* TLC enumerates all ticket sequences of d <= D iterations and counts     *)
(* those that return k at exactly the d-th iteration; the counts satisfy   *)
(*   A * SUM_{d<=D} Ret(k,d) (NM)^(D-d)  =  acc[k] * ((NM)^D - R^D)        *)
(* with A = SUM acc, R = NM - A: the return law truncated at D iterations  *)
(* is acc[k]/A * (1 - (R/NM)^D), i.e. acc[k]/A in the limit.  The variant  *)
(* WRONG (acceptance test y <= acc[u], an off-by-one) must fail the same   *)
(* identity, so the check is not vacuous.                                  *)
(***************************************************************************)
EXTENDS Integers, Sequences, FiniteSets, TLC
CONSTANTS N, M, D, Variant

Accepts(acc, u, y) == IF Variant = "code" THEN y < acc[u] ELSE y <= acc[u]
Pairs == (1..N) \X (0..(M - 1))
\* ticket sequences of exactly d iterations: d-1 rejected proposals, then an accepted one returning k
Ret(acc, k, d) == Cardinality({s \in [1..d -> Pairs] :
                      /\ \A i \in 1..(d - 1) : ~Accepts(acc, s[i][1], s[i][2])
                      /\ Accepts(acc, s[d][1], s[d][2]) /\ s[d][1] = k})
RECURSIVE Pow(_, _)
Pow(b, e) == IF e = 0 THEN 1 ELSE b * Pow(b, e - 1)
RECURSIVE SumAcc(_, _)
SumAcc(acc, n) == IF n = 0 THEN 0 ELSE acc[n] + SumAcc(acc, n - 1)
RECURSIVE Partial(_, _, _)
Partial(acc, k, d) == IF d = 0 THEN 0 ELSE Ret(acc, k, d) * Pow(N * M, D - d) + Partial(acc, k, d - 1)

LawHolds == \A acc \in [1..N -> 0..M] :
               LET A == SumAcc(acc, N)  R == N * M - A IN
               \A k \in 1..N : A * Partial(acc, k, D) = acc[k] * (Pow(N * M, D) - Pow(R, D))
ASSUME PrintT(<<"REJTOY", Variant, LawHolds>>)
VARIABLE dummy
Init == dummy = 0
Next == UNCHANGED dummy
=============================================================================
