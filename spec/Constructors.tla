---------------------------- MODULE Constructors ----------------------------
(***************************************************************************)
(* The documented verdict of every public constructor of rand_distr as a   *)
(* function of the order abstraction of its arguments (C04).  Written from  *)
(* the doc comments on the constructors and on the error variants          *)
(* (DESIGN.md Appendix A), not from the code.                               *)
(*                                                                         *)
(* Allowed(ctor, ft, a) is the set of admissible verdicts: an error variant *)
(* is admissible iff its documented condition is true, "Ok" iff none is;   *)
(* "ANY" marks a region where the documentation is silent or contradicts   *)
(* itself (every non-panicking verdict is admissible).  "Panic" is never    *)
(* admissible.                                                             *)
(***************************************************************************)
EXTENDS FloatLine, FiniteSets

\* variants whose condition holds, or {"Ok"} when none does
Verdicts(conds) == LET errs == {c[1] : c \in {c \in conds : c[2]}} IN
                   IF errs = {} THEN {"Ok"} ELSE errs

Allowed(ctor, ft, a) ==
  CASE ctor \in {"Normal::new", "LogNormal::new"} ->
         Verdicts({<<"BadVariance", ~Fin(a[2])>>})
    [] ctor = "Normal::from_mean_cv" ->
         \* U: mean not finite, or both |mean| and cv huge (cv*mean may overflow): "mean unrestricted"
         \*    vs "dispersion parameter is not finite"
         IF Fin(a[2]) /\ GE(a[2], Zero) /\ (~Fin(a[1]) \/ ((GE(a[1], Pt("1e10")) \/ LE(a[1], Pt("-1e10"))) /\ GE(a[2], Pt("1e10"))))
           THEN {"ANY"}
         ELSE Verdicts({<<"BadVariance", ~Fin(a[2]) \/ LT(a[2], Zero)>>})
    [] ctor = "LogNormal::from_mean_cv" ->
         \* U: mean = +inf; cv >= 1e10 with a valid mean (the derived sigma = sqrt(ln(1+cv^2)) is a
         \*    "dispersion parameter" that may overflow: BadVariance "... or other dispersion
         \*    parameter is not finite" can be read either way)
         IF PInf(a[1]) THEN {"ANY"}
         ELSE IF Pos(a[1]) /\ Fin(a[2]) /\ GE(a[2], Pt("1e10")) THEN {"Ok", "BadVariance"}
         ELSE Verdicts({<<"MeanTooSmall", NonPos(a[1]) /\ ~(IsZero(a[1]) /\ IsZero(a[2]))>>,
                        <<"BadVariance", ~GE(a[2], Zero) \/ ~Fin(a[2])>>})
    [] ctor = "Exp::new" ->
         Verdicts({<<"LambdaTooSmall", LT(a[1], Zero) \/ NegZero(a[1]) \/ IsNaN(a[1])>>})
    [] ctor = "Gamma::new" ->
         \* U: scale = +inf (variant doc: error; type notes and gamma_extreme_values: Ok)
         IF PInf(a[2]) /\ Pos(a[1]) THEN {"Ok", "ScaleTooLarge"}
         ELSE Verdicts({<<"ShapeTooSmall", NonPos(a[1])>>, <<"ScaleTooSmall", NonPos(a[2])>>,
                        <<"ScaleTooLarge", PInf(a[2]) \/ NInf(a[2])>>})
    [] ctor \in {"ChiSquared::new", "StudentT::new"} ->
         Verdicts({<<"DoFTooSmall", HalfNonPos(a[1]) \/ IsNaN(a[1])>>})
    [] ctor = "FisherF::new" ->
         Verdicts({<<"MTooSmall", HalfNonPos(a[1]) \/ IsNaN(a[1])>>,
                   <<"NTooSmall", HalfNonPos(a[2]) \/ IsNaN(a[2])>>})
    [] ctor = "Beta::new" ->
         Verdicts({<<"AlphaTooSmall", NonPos(a[1])>>, <<"BetaTooSmall", NonPos(a[2])>>})
    [] ctor = "Triangular::new" ->          \* (min, max, mode)
         Verdicts({<<"RangeTooSmall", LT(a[2], a[1]) \/ IsNaN(a[1]) \/ IsNaN(a[2])>>,
                   <<"ModeRange", LT(a[3], a[1]) \/ GT(a[3], a[2]) \/ IsNaN(a[3])>>})
    [] ctor = "Pert::with_mode" ->          \* (min, max, mode, shape)
         \* U: max == min (variant: "max < min", Display: "min < max is not met");
         \*    any infinite argument (internal Beta parameters become NaN -> RangeTooSmall)
         IF EQ(a[1], a[2]) \/ (\E i \in 1..4 : PInf(a[i]) \/ NInf(a[i])) THEN {"ANY"}
         ELSE Verdicts({<<"RangeTooSmall", LT(a[2], a[1]) \/ IsNaN(a[1]) \/ IsNaN(a[2])>>,
                        <<"ModeRange", LT(a[3], a[1]) \/ GT(a[3], a[2]) \/ IsNaN(a[3])>>,
                        <<"ShapeTooSmall", LT(a[4], Zero) \/ IsNaN(a[4])>>})
    [] ctor = "Cauchy::new" ->
         Verdicts({<<"ScaleTooSmall", LE(a[2], Zero) \/ IsNaN(a[2])>>})
    [] ctor \in {"Pareto::new", "Weibull::new"} ->
         Verdicts({<<"ScaleTooSmall", NonPos(a[1])>>, <<"ShapeTooSmall", NonPos(a[2])>>})
    [] ctor = "Gumbel::new" ->
         Verdicts({<<"LocationNotFinite", ~Fin(a[1])>>, <<"ScaleNotPositive", ~(Fin(a[2]) /\ Pos(a[2]))>>})
    [] ctor = "Frechet::new" ->
         Verdicts({<<"LocationNotFinite", ~Fin(a[1])>>, <<"ScaleNotPositive", ~(Fin(a[2]) /\ Pos(a[2]))>>,
                   <<"ShapeNotPositive", ~(Fin(a[3]) /\ Pos(a[3]))>>})
    [] ctor = "SkewNormal::new" ->
         Verdicts({<<"ScaleTooSmall", ~Fin(a[2]) \/ LE(a[2], Zero)>>, <<"BadShape", ~Fin(a[3])>>})
    [] ctor = "InverseGaussian::new" ->
         Verdicts({<<"MeanNegativeOrNull", NonPos(a[1])>>, <<"ShapeNegativeOrNull", NonPos(a[2])>>})
    [] ctor = "NormalInverseGaussian::new" ->
         Verdicts({<<"AlphaNegativeOrNull", NonPos(a[1])>>, <<"AlphaInfinite", PInf(a[1])>>,
                   \* a[3] is |beta| (logged by the harness: clearing the sign bit is exact)
                   <<"AbsoluteBetaNotLessThanAlpha", ~LT(a[3], a[1])>>})
    [] ctor = "Binomial::new" ->            \* (n: u64, p)
         Verdicts({<<"ProbabilityTooSmall", LT(a[2], Zero) \/ IsNaN(a[2])>>,
                   <<"ProbabilityTooLarge", GT(a[2], One)>>})
    [] ctor = "Poisson::new" ->
         \* U: the one-ulp neighbours of MAX_LAMBDA when it is not representable (f32)
         IF ft = "f32" /\ (EQ(a[1], Pt("MAXL-ulp")) \/ EQ(a[1], Pt("MAXL+ulp")) \/ EQ(a[1], Pt("MAXL"))) THEN {"Ok", "ShapeTooLarge"}
         ELSE Verdicts({<<"NonFinite", ~Fin(a[1])>>, <<"ShapeTooSmall", LE(a[1], Zero)>>,
                        <<"ShapeTooLarge", GT(a[1], Pt("MAXL"))>>})
    [] ctor = "Geometric::new" ->
         Verdicts({<<"InvalidProbability", LT(a[1], Zero) \/ GT(a[1], One) \/ IsNaN(a[1])>>})
    [] ctor = "Hypergeometric::new" ->      \* (N, K, n: u64)
         LET errs == Verdicts({<<"ProbabilityTooLarge", IGT(a[2], a[1])>>, <<"SampleSizeTooLarge", IGT(a[3], a[1])>>})
         IN  \* U: which N "underflow" is not documented; PopulationTooLarge only for N > 2^53
             IF errs = {"Ok"} /\ IGT(a[1], IPt("2^53")) THEN {"Ok", "PopulationTooLarge", "Timeout"}
             ELSE errs \cup (IF IGT(a[1], IPt("2^53")) THEN {"Timeout"} ELSE {})
    [] ctor = "Zipf::new" ->                \* (n, s)
         Verdicts({<<"STooSmall", LT(a[2], Zero) \/ IsNaN(a[2])>>, <<"NTooSmall", LT(a[1], One) \/ IsNaN(a[1])>>,
                   <<"IllDefined", PInf(a[1]) /\ LE(a[2], One)>>})
    [] ctor = "Zeta::new" ->
         Verdicts({<<"STooSmall", LE(a[1], One) \/ IsNaN(a[1])>>})
    [] ctor = "Dirichlet::new" ->           \* a = the alpha vector, length 0..
         IF Len(a) < 2 THEN {"AlphaTooShort", "SizeTooSmall"}
         ELSE Verdicts({<<"AlphaTooSmall", \E i \in 1..Len(a) : NonPos(a[i])>>,
                        <<"AlphaInfinite", \E i \in 1..Len(a) : PInf(a[i]) \/ NInf(a[i])>>,
                        <<"AlphaSubnormal", \E i \in 1..Len(a) : a[i].s>>})
    [] OTHER -> {"UNKNOWN-CTOR"}

\* Pert::with_mean on the dyadic sub-lattice: arguments are integers in units of 1/4 (min, max,
\* mean) and the shape s in {1, 2, 4}; mode = ((s+2)*mean - min - max)/s is exact there, so the
\* verdict of with_mode applies with  s*mode = (s+2)*mean - min - max.
AllowedWithMean(mn, mx, mean, s) ==
    LET smode == (s + 2) * mean - mn - mx IN
    IF mx = mn THEN {"ANY"}
    ELSE Verdicts({<<"RangeTooSmall", mx < mn>>,
                   <<"ModeRange", smode < s * mn \/ smode > s * mx>>})

\* the rule evaluated on an observed call
Judge(allowed, verdict) == "ANY" \in allowed \/ verdict \in allowed
VerdictOK(allowed, verdict) == verdict # "Panic" /\ Judge(allowed, verdict)
=============================================================================
