-------------------------------- MODULE Ord --------------------------------
(***************************************************************************)
(* Exact order arithmetic on values that do not fit TLC's 32-bit integers. *)
(* A value is a triple of limbs <<h, m, l>> (22 + 21 + 21 bits, most       *)
(* significant first).  The harness logs                                   *)
(*   - a float as its monotone ordinal (sign-magnitude bits mapped to an   *)
(*     order-preserving unsigned number, shifted by 2^63), so x < y iff    *)
(*     Ord(x) < Ord(y) for non-NaN x, y (and -0, +0 map to the same limbs), *)
(*   - a u64 as its value.                                                 *)
(* Every order statement of a property (support membership, "<= n",        *)
(* "within k ordinals") is evaluated exactly on these limbs.               *)
(***************************************************************************)
EXTENDS Integers, Sequences

B == 2097152        \* 2^21

LLT(a, b) == \/ a[1] < b[1]
             \/ (a[1] = b[1] /\ a[2] < b[2])
             \/ (a[1] = b[1] /\ a[2] = b[2] /\ a[3] < b[3])
LEQ(a, b) == a[1] = b[1] /\ a[2] = b[2] /\ a[3] = b[3]
LLE(a, b) == LLT(a, b) \/ LEQ(a, b)

\* a + b with carries (the top limb may exceed 22 bits: sums are not truncated)
LAdd(a, b) == LET l == a[3] + b[3]
                  m == a[2] + b[2] + (l \div B)
              IN  <<a[1] + b[1] + (m \div B), m % B, l % B>>
\* a - b for a >= b
LSub(a, b) == LET l  == a[3] - b[3]
                  bl == IF l < 0 THEN 1 ELSE 0
                  m  == a[2] - b[2] - bl
                  bm == IF m < 0 THEN 1 ELSE 0
              IN  <<a[1] - b[1] - bm, m + bm * B, l + bl * B>>
LZero == <<0, 0, 0>>
LMax(a, b) == IF LLT(a, b) THEN b ELSE a
LMin(a, b) == IF LLT(a, b) THEN a ELSE b

\* ordinals of float constants (value-independent of the width of the float for 0;
\* per type for 1 and -1)
FZero == <<B, 0, 0>>                                     \* +0.0 / -0.0 : 2^63
FOne(ft)  == IF ft = "f32" THEN <<B, 508, 0>>            \* 2^63 + 0x3F800000
             ELSE <<B + 1047552, 0, 0>>                  \* 2^63 + 0x3FF0000000000000
FMOne(ft) == IF ft = "f32" THEN <<B - 1, B - 508, 0>>    \* 2^63 - 0x3F800000
             ELSE <<B - 1047552, 0, 0>>
=============================================================================
