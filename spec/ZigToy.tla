------------------------------- MODULE ZigToy -------------------------------
(***************************************************************************)
(* C06, sub-claim 1: the DESIGN of utils::ziggurat (ZIGNOR) samples the    *)
(* density it is given - checked on a toy density for which everything is  *)
(* rational, by counting tickets.                                          *)
(*                                                                         *)
(* Toy (one-sided) density on [0, 4):  piecewise linear through            *)
(*      f(0) = 25, f(1) = 13, f(2) = 7, f(3) = 3, and f = 3 on [3, 4)      *)
(* (the "tail", sampled by the toy zero_case by exact inverse transform).  *)
(* Four layers of equal area v = 12 with the conventions of the code:      *)
(*      x_tab = <<v/f(r), 3, 2, 1, 0>> = <<4, 3, 2, 1, 0>>   (x_tab[1] = r) *)
(*      f_tab = << - , 3, 7, 13, 25>>                                       *)
(* One ticket = (layer i from the low bits, u on a lattice of M midpoints  *)
(* as the one-sided conversion of the code yields, U on a lattice of M     *)
(* left end points as rng.random() yields).  Step(..) is the body of the   *)
(* loop, transcribed: rectangle test u*x_i < x_{i+1}; i = 0 -> tail;        *)
(* wedge test f_{i+1} + (f_i - f_{i+1})*U < pdf(x); otherwise loop.        *)
(* The theorem: the number of tickets accepted into each cell [c/4,(c+1)/4)*)
(* equals M^2 * 4 * (integral of f over the cell) / 48 up to the lattice   *)
(* resolution (one ticket per wedge column).  Variant /= "code" selects    *)
(* deliberately wrong designs, used to show that the check discriminates.  *)
(***************************************************************************)
EXTENDS Integers, FiniteSets, Sequences

CONSTANTS M,        \* lattice size (multiple of 12)
          Variant   \* "code" | "rect_uses_xi" | "wedge_index_off" | "no_x0_convention"

XT == <<4, 3, 2, 1, 0>>          \* x_tab[0..4]  (1-based here: XT[i+1] = x_tab[i])
FT == <<0, 3, 7, 13, 25>>        \* f_tab[0..4]
X(i) == IF Variant = "no_x0_convention" /\ i = 0 THEN 3 ELSE XT[i + 1]
F(i) == FT[i + 1]

\* pdf(x) for x = n/(2M) * X(i) ... all positions are kept as integers in units of 1/(2M):
\* u = (2j+1)/(2M), x = u * x_i  =>  xn = (2j+1) * x_i   (in units of 1/(2M))
Unit == 2 * M
\* the toy density at position xn/Unit, times Unit (exact integer): linear on each [k, k+1]
PdfU(xn) == LET k == xn \div Unit IN
            IF k >= 3 THEN 3 * Unit
            ELSE F(4 - k) * Unit - (F(4 - k) - F(3 - k)) * (xn - k * Unit)     \* f(k) - slope * (x - k)

\* one iteration of the loop for ticket (i, j, jU): "rej" or the accepted position in units of 1/(2M)
Step(i, j, jU) ==
    LET xn == (2 * j + 1) * X(i)                       \* x = u * x_tab[i]
        edge == IF Variant = "rect_uses_xi" THEN X(i) ELSE X(i + 1)
    IN  IF xn < edge * Unit THEN xn                    \* test_x < x_tab[i + 1]: return x
        ELSE IF i = 0 THEN 3 * Unit + (2 * jU + 1)     \* zero_case: r + U' , U' midpoint lattice (toy tail: uniform on [3,4))
        ELSE LET lo == IF Variant = "wedge_index_off" THEN F(i) ELSE F(i + 1)
                 hi == IF Variant = "wedge_index_off" THEN F(i - 1) ELSE F(i)
             IN  \* f_tab[i+1] + (f_tab[i] - f_tab[i+1]) * U < pdf(x),   U = jU / M ; everything times Unit * M
                 IF lo * Unit * M + (hi - lo) * jU * Unit < PdfU(xn) * M THEN xn ELSE -1

Tickets == (0..3) \X (0..(M - 1)) \X (0..(M - 1))
Cell(c) == {t \in Tickets : LET r == Step(t[1], t[2], t[3]) IN r >= 0 /\ r \div (Unit \div 4) = c}   \* [c/4, (c+1)/4)

\* 48 * (integral of f over [c/4, (c+1)/4)) * 8   (exact integers): trapezoid on the linear pieces
Mass8(c) == LET a == c * (Unit \div 4)  b == (c + 1) * (Unit \div 4) IN
            \* (f(a) + f(b)) / 2 * (1/4), scaled: (PdfU(a) + PdfU(b)) / Unit / 8 ; keep as (PdfU(a)+PdfU(b)) and compare cross-multiplied
            PdfU(a) + PdfU(IF c = 15 THEN a ELSE b)

\* count(c) / (4 M^2) = Mass(c) / 48  with Mass(c) = (PdfU(a)+PdfU(b)) / (8 Unit)
\*   <=>  count(c) * 48 * 8 * Unit = 4 M^2 * (PdfU(a) + PdfU(b))    up to lattice resolution:
\*   each of the (at most M) wedge columns of a cell may lose or gain one ticket
LawHolds == \A c \in 0..15 :
               LET lhs == Cardinality(Cell(c)) * 96 * Unit      \* * 48 * 8 / 4
                   rhs == M * M * Mass8(c)
                   tol == 96 * Unit * (M + 1)                     \* (M + 1) tickets
               IN  lhs - rhs <= tol /\ rhs - lhs <= tol

\* the loop as a state machine (one action per iteration) over the same Step
VARIABLES i, j, jU, out, iters
vars == <<i, j, jU, out, iters>>
Init == i \in 0..3 /\ j \in 0..(M - 1) /\ jU \in 0..(M - 1) /\ out = -2 /\ iters = 0
Iterate == /\ out < 0 /\ iters < 1
           /\ out' = Step(i, j, jU) /\ iters' = iters + 1 /\ UNCHANGED <<i, j, jU>>
Spec == Init /\ [][Iterate]_vars
\* a returned value lies under the density's support and inside the layer it was drawn from
InLayer == (out >= 0) => /\ out < 4 * Unit
                          /\ (i >= 1 => out < X(i) * Unit)
                          /\ (i = 0 /\ out >= 3 * Unit => iters = 1)
=============================================================================
