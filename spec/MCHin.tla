-------------------------------- MODULE MCHin --------------------------------
(* Prints the HIN cases of HinTable for the harness *)
EXTENDS HinTable, Sequences, Integers, TLC, Json, IOUtils
TT == IF "TIER" \in DOMAIN IOEnv /\ IOEnv.TIER = "thorough" THEN HNTabT ELSE HNTab
VARIABLE c
Init == c = 0
Next == /\ c < Len(TT) /\ c' = c + 1
        /\ PrintT(<<"CASE", ToJson([kernel |-> "hin", id |-> TT[c'].id, N |-> TT[c'].N, K |-> TT[c'].K, n |-> TT[c'].n,
                                    xs |-> [i \in 1..Len(TT[c'].xs) |-> TT[c'].xs[i].x]])>>)
Spec == Init /\ [][Next]_c
=============================================================================
