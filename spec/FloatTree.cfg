SPECIFICATION Spec
CONSTANTS
  SIG = 4
  MaxLen = 4
  W = {1, 2, 3, 5, 7, 9, 11, 13, 15, 18, 22, 26, 30, 36, 44, 52, 60}
INVARIANT NoAssertPanic
CHECK_DEADLOCK FALSE
