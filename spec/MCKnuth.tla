------------------------------- MODULE MCKnuth -------------------------------
(* Prints the Knuth-method cases of RejectionTable (NTable) for the harness *)
EXTENDS Rejection2, TLC, Json
VARIABLE c
Init == c = 0
Next == /\ c < Len(NTable) /\ c' = c + 1
        /\ PrintT(<<"CASE", ToJson([id |-> NTable[c'].id, fam |-> NTable[c'].fam, params |-> NTable[c'].params, k |-> 1])>>)
Spec == Init /\ [][Next]_c
=============================================================================
