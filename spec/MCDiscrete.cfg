SPECIFICATION Spec
CONSTANTS
  BinvParams <- MC_Binv
  HinMaxN <- MC_HinMaxN
  Slack = TRUE
INVARIANTS Law InSupport Budget
PROPERTY Termination
CHECK_DEADLOCK FALSE
