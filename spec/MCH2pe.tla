------------------------------- MODULE MCH2pe -------------------------------
(* Prints the H2PE anchors of H2peTable as cases for the harness *)
EXTENDS H2peTable, Sequences, Integers, TLC, Json
VARIABLE c
Init == c = 0
Next == /\ c < Len(HTab) /\ c' = c + 1
        /\ PrintT(<<"CASE", ToJson([kernel |-> "h2pe", id |-> HTab[c'].id, N |-> HTab[c'].N, K |-> HTab[c'].K, n |-> HTab[c'].n,
                                     r1 |-> [k \in 1..Len(HTab[c'].r1) |-> HTab[c'].r1[k].w1],
                                     rt |-> [k \in 1..Len(HTab[c'].rt) |-> [w1 |-> HTab[c'].rt[k].w1, probe |-> HTab[c'].rt[k].probe, out |-> HTab[c'].rt[k].out]]])>>)
Spec == Init /\ [][Next]_c
=============================================================================
