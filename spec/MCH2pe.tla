------------------------------- MODULE MCH2pe -------------------------------
(* Prints the H2PE anchors of H2peTable as cases for the harness *)
EXTENDS H2peTable, Sequences, Integers, TLC, Json, IOUtils
TT == IF "TIER" \in DOMAIN IOEnv /\ IOEnv.TIER = "thorough" THEN HTabT ELSE HTab
VARIABLE c
Init == c = 0
Next == /\ c < Len(TT) /\ c' = c + 1
        /\ PrintT(<<"CASE", ToJson([kernel |-> "h2pe", id |-> TT[c'].id, N |-> TT[c'].N, K |-> TT[c'].K, n |-> TT[c'].n,
                                     r1 |-> [k \in 1..Len(TT[c'].r1) |-> TT[c'].r1[k].w1],
                                     rt |-> [k \in 1..Len(TT[c'].rt) |-> [w1 |-> TT[c'].rt[k].w1, probe |-> TT[c'].rt[k].probe, out |-> TT[c'].rt[k].out]]])>>)
Spec == Init /\ [][Next]_c
=============================================================================
