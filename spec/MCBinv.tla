------------------------------- MODULE MCBinv -------------------------------
(* Prints the BINV cases of BinvTable for the harness *)
EXTENDS BinvTable, Sequences, Integers, TLC, Json, IOUtils
TT == IF "TIER" \in DOMAIN IOEnv /\ IOEnv.TIER = "thorough" THEN VTabT ELSE VTab
VARIABLE c
Init == c = 0
Next == /\ c < Len(TT) /\ c' = c + 1
        /\ PrintT(<<"CASE", ToJson([kernel |-> "binv", id |-> TT[c'].id, n |-> TT[c'].n, p |-> TT[c'].p, flipped |-> TT[c'].flipped,
                                    xs |-> [i \in 1..Len(TT[c'].xs) |-> TT[c'].xs[i].x]])>>)
Spec == Init /\ [][Next]_c
=============================================================================
