------------------------------ MODULE TreeGen ------------------------------
(* Behaviour generation for replay into the real WeightedTreeIndex (C09,   *)
(* C10): every history of exactly Depth calls over the alphabet below is   *)
(* printed once as a JSON line, each step carrying the observations the    *)
(* specification predicts (result, pop value, the weight list afterwards). *)
(* `hist` exists only here; the exhaustive model (MCTree) does not have it.*)
EXTENDS WeightedTree, TLC, Json, IOUtils

M     == atoi(IOEnv.M)
Depth == atoi(IOEnv.DEPTH)

VARIABLE hist
gvars == <<sub, ws, res, ret, hist>>

G_PushVals == {NAN, NEG, 0, 1, M - 1}
G_UpdVals  == {0, 2, M}
G_UpdIdx   == 0..3
G_NewLists == { <<>>, <<1, 2, 0, 1>>, <<M - 2, 0, 1>>, <<NEG, 1, 1>>, <<1, NEG, 0, 2, 1>> }

Rec(op, i, w, l) == [op |-> op, i |-> i, w |-> w, l |-> l,
                     res |-> res', ret |-> ret', ws |-> ws',
                     valid |-> Total(sub') > 0]

GInit == Init /\ hist = <<>>

GNext == /\ Len(hist) < Depth
         /\ \/ \E l \in NewLists : New(l) /\ hist' = Append(hist, Rec("new", -1, -1, l))
            \/ \E w \in PushVals : Push(w) /\ hist' = Append(hist, Rec("push", -1, w, <<>>))
            \/ Pop /\ hist' = Append(hist, Rec("pop", -1, -1, <<>>))
            \/ \E i \in UpdIdx, w \in UpdVals :
                  Update(i, w) /\ hist' = Append(hist, Rec("update", i, w, <<>>))

GSpec == GInit /\ [][GNext]_gvars

Emit == (Len(hist) = Depth) => PrintT(<<"REPLAY", ToJson(hist)>>)
=============================================================================
