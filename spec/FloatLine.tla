----------------------------- MODULE FloatLine -----------------------------
(***************************************************************************)
(* Order abstraction of IEEE floats (f32 and f64 alike) and of u64 for the *)
(* constructor verdict tables (C04).                                       *)
(*                                                                         *)
(* A float argument is a record                                            *)
(*    [c |-> "nan" | "ninf" | "fin" | "pinf",   class                      *)
(*     r |-> Int,   major rank: 2*i for the i-th named point, 2*i+1 for    *)
(*                  the open interval between point i and point i+1        *)
(*     m |-> Int,   minor rank: order among the arguments of one call that *)
(*                  fall into the same open interval (0 for named points)  *)
(*     z |-> BOOLEAN,  the value is -0.0                                   *)
(*     s |-> BOOLEAN]  the value is subnormal                              *)
(* Every condition documented on an error variant is a comparison against  *)
(* a named constant or between arguments, or a class predicate, so the     *)
(* verdict is a function of these records (the abstraction is exact).      *)
(***************************************************************************)
EXTENDS Integers, Sequences

\* named points in increasing order; "-0" and "+0" share a rank
Names == << "-inf", "-MAX", "-1e10", "-2", "-1-ulp", "-1", "-1+ulp", "-0.5", "-MINPOS", "-maxSub",
            "-minSub", "0", "minSub", "maxSub", "MINPOS", "1e-10", "0.1-ulp", "0.1", "0.1+ulp", "0.5",
            "2/3-ulp", "2/3", "1-ulp", "1", "1+ulp", "2", "12-ulp", "12", "1e10", "MAXL-ulp", "MAXL",
            "MAXL+ulp", "MAX/2", "MAX", "+inf" >>

IndexOf(name) == CHOOSE i \in 1..Len(Names) : Names[i] = name
Rk(name) == 2 * (IndexOf(name) - 1)

FV(c, r, m, z, s) == [c |-> c, r |-> r, m |-> m, z |-> z, s |-> s]

\* the value record of a named point ("NaN", "-0", "+0" are extra names)
PtDef(name) ==
    IF name = "NaN"  THEN FV("nan", -1, 0, FALSE, FALSE)
    ELSE IF name = "-0" THEN FV("fin", Rk("0"), 0, TRUE, FALSE)
    ELSE IF name = "+0" THEN FV("fin", Rk("0"), 0, FALSE, FALSE)
    ELSE IF name = "-inf" THEN FV("ninf", Rk("-inf"), 0, FALSE, FALSE)
    ELSE IF name = "+inf" THEN FV("pinf", Rk("+inf"), 0, FALSE, FALSE)
    ELSE FV("fin", Rk(name), 0, FALSE, name \in {"-maxSub", "-minSub", "minSub", "maxSub"})

AllNames == {Names[i] : i \in 1..Len(Names)} \cup {"NaN", "-0", "+0"}
PtTab == [nm \in AllNames |-> PtDef(nm)]          \* constant: evaluated once by TLC
Pt(name) == PtTab[name]

IsNaN(a) == a.c = "nan"
Fin(a)   == a.c = "fin"
PInf(a)  == a.c = "pinf"
NInf(a)  == a.c = "ninf"
\* IEEE comparisons: anything involving NaN is false; -0 = +0
LT(a, b) == ~IsNaN(a) /\ ~IsNaN(b) /\ (a.r < b.r \/ (a.r = b.r /\ a.m < b.m))
EQ(a, b) == ~IsNaN(a) /\ ~IsNaN(b) /\ a.r = b.r /\ a.m = b.m
LE(a, b) == LT(a, b) \/ EQ(a, b)
GT(a, b) == LT(b, a)
GE(a, b) == LE(b, a)

Zero == Pt("+0")
One  == Pt("1")
Pos(a)    == GT(a, Zero)            \* x > 0   (false for NaN)
NonPos(a) == ~Pos(a)                \* !(x > 0): x <= 0 or NaN
IsZero(a) == EQ(a, Zero)
NegZero(a) == IsZero(a) /\ a.z
\* 0.5 * k <= 0 in float arithmetic: k <= 0, or k is the smallest subnormal (0.5*minSub rounds to 0)
HalfNonPos(k) == LE(k, Zero) \/ EQ(k, Pt("minSub"))

---------------------------------------------------------------------------
(* u64 arguments: same record shape, class "int", named points below       *)
INames == << "0", "1", "2", "3", "10", "1000", "2^53", "2^53+1", "2^63", "MAX-1", "MAX" >>
IIndexOf(name) == CHOOSE i \in 1..Len(INames) : INames[i] = name
IRk(name) == 2 * (IIndexOf(name) - 1)
IPtTab == [nm \in {INames[i] : i \in 1..Len(INames)} |-> FV("int", IRk(nm), 0, FALSE, FALSE)]
IPt(name) == IPtTab[name]
ILT(a, b) == a.r < b.r \/ (a.r = b.r /\ a.m < b.m)
IGT(a, b) == ILT(b, a)
=============================================================================
