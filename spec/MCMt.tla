-------------------------------- MODULE MCMt --------------------------------
(* Prints the Marsaglia-Tsang anchors of MtTable as cases for the harness *)
EXTENDS MtTable, Sequences, Integers, TLC, Json, IOUtils
TT == IF "TIER" \in DOMAIN IOEnv /\ IOEnv.TIER = "thorough" THEN MTabT ELSE MTab
VARIABLE c
Init == c = 0
Next == /\ c < Len(TT) /\ c' = c + 1
        /\ PrintT(<<"CASE", ToJson([kernel |-> "mt", id |-> TT[c'].id, shape |-> TT[c'].shape, xs |-> [j \in 1..Len(TT[c'].xs) |-> TT[c'].xs[j].x]])>>)
Spec == Init /\ [][Next]_c
=============================================================================
