-------------------------------- MODULE MCMt --------------------------------
(* Prints the Marsaglia-Tsang anchors of MtTable as cases for the harness *)
EXTENDS MtTable, Sequences, Integers, TLC, Json
VARIABLE c
Init == c = 0
Next == /\ c < Len(MTab) /\ c' = c + 1
        /\ PrintT(<<"CASE", ToJson([kernel |-> "mt", id |-> MTab[c'].id, shape |-> MTab[c'].shape, xs |-> [j \in 1..Len(MTab[c'].xs) |-> MTab[c'].xs[j].x]])>>)
Spec == Init /\ [][Next]_c
=============================================================================
