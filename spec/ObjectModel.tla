---------------------------- MODULE ObjectModel ----------------------------
(***************************************************************************)
(* Object model of the crate's distribution values (C14, C15).             *)
(*                                                                         *)
(* Distribution values are objects o with a class cls[o] (type + parameter *)
(* identity); RNG handles r carry a state st[r].  sample(&self, rng) is    *)
(* specified as an UNINTERPRETED function of (class, RNG state): here the  *)
(* RNG state is kept symbolically as <<seed, classes sampled since>>, so   *)
(* that two handles have the same state iff they were seeded alike and     *)
(* the same sequence of classes was drawn from them.  The specification    *)
(* says that nothing else - object identity, cloning, rebuilding from      *)
(* equal parameters, a serde round trip, earlier sampling from this or any *)
(* other object, Debug/PartialEq calls - can influence a sample or the     *)
(* successor RNG state.                                                    *)
(*                                                                         *)
(* This module generates schedules (interleavings of the actions below on  *)
(* 3 objects of 2 classes and 2 RNG handles); every schedule that revisits *)
(* a (class, RNG state) key through a different history is printed and is  *)
(* instantiated by the harness for every entry of the registry.  The       *)
(* recorded executions are validated by TraceObject.tla.                   *)
(***************************************************************************)
EXTENDS Integers, Sequences, FiniteSets, TLC, Json, IOUtils

Depth     == atoi(IOEnv.DEPTH)
WithSerde == IOEnv.SERDE = "1"

Obj  == 1..3
Cls  == {"A", "B", "Am", "Bm"}        \* Am, Bm: the value after the (idempotent) mutation of a mutable type (weighted tree: update)
Rng  == 1..2
Seed == 1..2

VARIABLES cls,      \* Obj -> Cls
          st,       \* Rng -> <<seed, Seq(Cls)>>   symbolic RNG state
          seen,     \* set of <<class, state>> keys already sampled
          revisits, \* how many Sample steps hit a key in `seen`
          hist      \* the schedule

vars == <<cls, st, seen, revisits, hist>>

Init == /\ cls = [o \in Obj |-> IF o = 2 THEN "B" ELSE "A"]     \* o1 = new(A), o2 = new(B), o3 = new(A)
        /\ st = [r \in Rng |-> <<1, <<>>>>]
        /\ seen = {} /\ revisits = 0 /\ hist = <<>>

Step(rec) == hist' = Append(hist, rec)

\* sample(&self, rng): consumes randomness, changes neither the object nor any other handle
Sample(o, r) ==
    LET key == <<cls[o], st[r]>> IN
    /\ st' = [st EXCEPT ![r] = <<st[r][1], Append(st[r][2], cls[o])>>]
    /\ seen' = seen \cup {key}
    /\ revisits' = revisits + (IF key \in seen THEN 1 ELSE 0)
    /\ Step([op |-> "sample", o |-> o, r |-> r, a |-> 0])
    /\ UNCHANGED cls

\* sample_iter(rng).take(2) must equal two successive samples
Iter(o, r) ==
    LET k1 == <<cls[o], st[r]>>
        s1 == <<st[r][1], Append(st[r][2], cls[o])>>
        k2 == <<cls[o], s1>> IN
    /\ st' = [st EXCEPT ![r] = <<s1[1], Append(s1[2], cls[o])>>]
    /\ seen' = seen \cup {k1, k2}
    /\ revisits' = revisits + (IF k1 \in seen THEN 1 ELSE 0) + (IF k2 \in seen THEN 1 ELSE 0)
    /\ Step([op |-> "iter", o |-> o, r |-> r, a |-> 2])
    /\ UNCHANGED cls

\* Clone: the trait has two methods - clone() and clone_from() (in place, into an existing value of the same type); the harness
\* uses clone_from whenever the slot o already holds a value of the type of `from`, so both realise this one action
Clone(o, from)   == o # from /\ cls' = [cls EXCEPT ![o] = cls[from]] /\ Step([op |-> "clone", o |-> o, r |-> 0, a |-> from]) /\ UNCHANGED <<st, seen, revisits>>
Rebuild(o, from) == o # from /\ cls' = [cls EXCEPT ![o] = cls[from]] /\ Step([op |-> "rebuild", o |-> o, r |-> 0, a |-> from]) /\ UNCHANGED <<st, seen, revisits>>
RoundTrip(o, from) == WithSerde /\ cls' = [cls EXCEPT ![o] = cls[from]] /\ Step([op |-> "roundtrip", o |-> o, r |-> 0, a |-> from]) /\ UNCHANGED <<st, seen, revisits>>
\* a mutating method (WeightedTreeIndex::update): the object denotes a different value afterwards; a value rebuilt
\* from equal parameters (or cloned) afterwards belongs to the same new class.  Applying it twice changes nothing more.
MutOf(c) == IF c = "A" THEN "Am" ELSE IF c = "B" THEN "Bm" ELSE c
Mutate(o)        == cls' = [cls EXCEPT ![o] = MutOf(cls[o])] /\ Step([op |-> "mutate", o |-> o, r |-> 0, a |-> 0]) /\ UNCHANGED <<st, seen, revisits>>
EqCall(a, b)     == a < b /\ Step([op |-> "eq", o |-> a, r |-> 0, a |-> b]) /\ UNCHANGED <<cls, st, seen, revisits>>
Dbg(o)           == Step([op |-> "dbg", o |-> o, r |-> 0, a |-> 0]) /\ UNCHANGED <<cls, st, seen, revisits>>
RngClone(r, from) == r # from /\ st' = [st EXCEPT ![r] = st[from]] /\ Step([op |-> "rngclone", o |-> 0, r |-> r, a |-> from]) /\ UNCHANGED <<cls, seen, revisits>>
Reseed(r, s)     == st' = [st EXCEPT ![r] = <<s, <<>>>>] /\ Step([op |-> "reseed", o |-> 0, r |-> r, a |-> s]) /\ UNCHANGED <<cls, seen, revisits>>

Next == /\ Len(hist) < Depth
        /\ \/ \E o \in Obj, r \in Rng : Sample(o, r) \/ Iter(o, r)
           \/ \E o \in Obj, f \in Obj : Clone(o, f) \/ Rebuild(o, f) \/ RoundTrip(o, f)
           \/ \E a \in Obj, b \in Obj : EqCall(a, b)
           \/ \E o \in Obj : Dbg(o) \/ Mutate(o)
           \/ \E r \in Rng, f \in Rng : RngClone(r, f)
           \/ \E r \in Rng, s \in Seed : Reseed(r, s)

Spec == Init /\ [][Next]_vars

\* design-level sanity of the model itself
TypeOK == /\ cls \in [Obj -> Cls]
          /\ \A r \in Rng : st[r][1] \in Seed
          /\ revisits <= 2 * Len(hist)
\* sampling never changes a class; only clone/rebuild/roundtrip assign one, and only an existing one
ClassStable == [][\A o \in Obj : cls'[o] # cls[o] => (\E f \in Obj : cls'[o] = cls[f]) \/ cls'[o] = MutOf(cls[o])]_vars

\* a schedule is worth replaying if it revisits a key (same class, same RNG state, different history)
Emit == (Len(hist) = Depth /\ revisits >= 1) => PrintT(<<"SCHED", ToJson(hist)>>)
=============================================================================
