----------------------------- MODULE TraceZigAcc -----------------------------
(* C06 trace validation of the measured acceptance counts (zigacc-drive) against ZigAcc.tla; F from the exported tables. *)
EXTENDS ZigAcc, TLC, Json, IOUtils

Rec == ndJsonDeserialize(IOEnv.TRACE)
Tab == ndJsonDeserialize(IOEnv.TABLE)
FQ(tab, i) == Tab[(IF tab = "norm" THEN 0 ELSE 257) + i + 1].fq
VARIABLE l
Ev == Rec[l]

Rule == /\ Ev.res = "Ok"
        /\ CASE Ev.op = "wedge" -> LET a == ZWedge[Ev.case] IN
                                   /\ a.tab = Ev.tab /\ a.i = Ev.i /\ a.xa = Ev.xa
                                   /\ Ev.inwedge                                        \* the anchor is a wedge proposal of layer i (two words)
                                   /\ Cmp(AbsDiff(Ev.xq, a.xaq), <<1>>) <= 0            \* the proposal found is the anchor (2^-40)
                                   /\ WedgeOK(Ev.T, FQ(Ev.tab, Ev.i), FQ(Ev.tab, Ev.i + 1), a.pdfq)
             [] Ev.op = "ntail" -> Ev.three_words /\ ZNTail[Ev.case].xa = Ev.xa /\ Near14(Ev.T, ZNTail[Ev.case].frac, 64 - 40)
             [] Ev.op = "etail" -> Ev.two_words /\ ZETail[Ev.case].t = Ev.t /\ Near14(Ev.cnt, ZETail[Ev.case].p, 64 - 40)
             [] OTHER -> FALSE

TInit == l = 1
TNext == /\ l <= Len(Rec) /\ l' = l + 1
         /\ IF Rule THEN TRUE ELSE PrintT(<<"TRACE-BAD", l, ToJson(Ev)>>)
TSpec == TInit /\ [][TNext]_l
TraceAccepted ==
    LET d == TLCGet("stats").diameter IN
    IF d - 1 = Len(Rec) THEN TRUE
    ELSE PrintT(<<"TRACE-REJECTED", "first unmatched line", d, ToJson(Rec[d])>>) /\ FALSE
=============================================================================
