CONSTANTS
  N = 3
  M = 3
  D = 3
  Variant = "code"
INIT Init
NEXT Next
CHECK_DEADLOCK FALSE
