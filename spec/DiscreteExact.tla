--------------------------- MODULE DiscreteExact ---------------------------
(***************************************************************************)
(* C02 (exact regimes): ticket models of the inverse-transform samplers.   *)
(*                                                                         *)
(* A "ticket" t in 0..D-1 stands for the uniform draw u = (2t+1)/(2D): the *)
(* D tickets are equiprobable, the model maps every ticket to an outcome   *)
(* by running the code's loop in exact integers (scaled by 2D), and the    *)
(* invariant says that the outcome's documented cdf interval contains the  *)
(* ticket - hence #tickets(outcome = x) = numerator of the documented pmf. *)
(*                                                                         *)
(* kind = "binv": Binomial(n, p = A/2^j) with n*min(p,1-p) < 10:           *)
(*     the constructor's p -> 1-p flip, the constants p in {0,1}, and      *)
(*     binomial.rs::binv  `while u > r { u -= r; x += 1; r *= a/x - s }`.  *)
(* kind = "hin":  Hypergeometric(N, K, n) in the HIN regime: the           *)
(*     constructor's two symmetry reductions (n1, n2, k, sign_x, offset_x),*)
(*     the start (initial_x, initial_p) and the walk                       *)
(*     `while u > p && x < min(n1,k) { u -= p; p *= ..; p /= ..; x += 1 }`.*)
(***************************************************************************)
EXTENDS Integers, Sequences, FiniteSets

CONSTANTS BinvParams,     \* set of <<n, A, j>>
          HinMaxN,        \* all (N, K, n) with N <= HinMaxN
          Slack           \* TRUE: also the slack ticket t = D (a draw at or beyond the total mass)

RECURSIVE Pow(_, _)
Pow(b, e) == IF e <= 0 THEN 1 ELSE b * Pow(b, e - 1)
\* Pascal's triangle up to n = 32 as constant data (all entries < 2^31); the ASSUME below checks
\* the defining recurrence, so the table is not trusted
PascalTable == <<
    <<1>>,
    <<1, 1>>,
    <<1, 2, 1>>,
    <<1, 3, 3, 1>>,
    <<1, 4, 6, 4, 1>>,
    <<1, 5, 10, 10, 5, 1>>,
    <<1, 6, 15, 20, 15, 6, 1>>,
    <<1, 7, 21, 35, 35, 21, 7, 1>>,
    <<1, 8, 28, 56, 70, 56, 28, 8, 1>>,
    <<1, 9, 36, 84, 126, 126, 84, 36, 9, 1>>,
    <<1, 10, 45, 120, 210, 252, 210, 120, 45, 10, 1>>,
    <<1, 11, 55, 165, 330, 462, 462, 330, 165, 55, 11, 1>>,
    <<1, 12, 66, 220, 495, 792, 924, 792, 495, 220, 66, 12, 1>>,
    <<1, 13, 78, 286, 715, 1287, 1716, 1716, 1287, 715, 286, 78, 13, 1>>,
    <<1, 14, 91, 364, 1001, 2002, 3003, 3432, 3003, 2002, 1001, 364, 91, 14, 1>>,
    <<1, 15, 105, 455, 1365, 3003, 5005, 6435, 6435, 5005, 3003, 1365, 455, 105, 15, 1>>,
    <<1, 16, 120, 560, 1820, 4368, 8008, 11440, 12870, 11440, 8008, 4368, 1820, 560, 120, 16, 1>>,
    <<1, 17, 136, 680, 2380, 6188, 12376, 19448, 24310, 24310, 19448, 12376, 6188, 2380, 680, 136, 17, 1>>,
    <<1, 18, 153, 816, 3060, 8568, 18564, 31824, 43758, 48620, 43758, 31824, 18564, 8568, 3060, 816, 153, 18, 1>>,
    <<1, 19, 171, 969, 3876, 11628, 27132, 50388, 75582, 92378, 92378, 75582, 50388, 27132, 11628, 3876, 969, 171, 19, 1>>,
    <<1, 20, 190, 1140, 4845, 15504, 38760, 77520, 125970, 167960, 184756, 167960, 125970, 77520, 38760, 15504, 4845, 1140, 190, 20, 1>>,
    <<1, 21, 210, 1330, 5985, 20349, 54264, 116280, 203490, 293930, 352716, 352716, 293930, 203490, 116280, 54264, 20349, 5985, 1330, 210, 21, 1>>,
    <<1, 22, 231, 1540, 7315, 26334, 74613, 170544, 319770, 497420, 646646, 705432, 646646, 497420, 319770, 170544, 74613, 26334, 7315, 1540, 231, 22, 1>>,
    <<1, 23, 253, 1771, 8855, 33649, 100947, 245157, 490314, 817190, 1144066, 1352078, 1352078, 1144066, 817190, 490314, 245157, 100947, 33649, 8855, 1771, 253, 23, 1>>,
    <<1, 24, 276, 2024, 10626, 42504, 134596, 346104, 735471, 1307504, 1961256, 2496144, 2704156, 2496144, 1961256, 1307504, 735471, 346104, 134596, 42504, 10626, 2024, 276, 24, 1>>,
    <<1, 25, 300, 2300, 12650, 53130, 177100, 480700, 1081575, 2042975, 3268760, 4457400, 5200300, 5200300, 4457400, 3268760, 2042975, 1081575, 480700, 177100, 53130, 12650, 2300, 300, 25, 1>>,
    <<1, 26, 325, 2600, 14950, 65780, 230230, 657800, 1562275, 3124550, 5311735, 7726160, 9657700, 10400600, 9657700, 7726160, 5311735, 3124550, 1562275, 657800, 230230, 65780, 14950, 2600, 325, 26, 1>>,
    <<1, 27, 351, 2925, 17550, 80730, 296010, 888030, 2220075, 4686825, 8436285, 13037895, 17383860, 20058300, 20058300, 17383860, 13037895, 8436285, 4686825, 2220075, 888030, 296010, 80730, 17550, 2925, 351, 27, 1>>,
    <<1, 28, 378, 3276, 20475, 98280, 376740, 1184040, 3108105, 6906900, 13123110, 21474180, 30421755, 37442160, 40116600, 37442160, 30421755, 21474180, 13123110, 6906900, 3108105, 1184040, 376740, 98280, 20475, 3276, 378, 28, 1>>,
    <<1, 29, 406, 3654, 23751, 118755, 475020, 1560780, 4292145, 10015005, 20030010, 34597290, 51895935, 67863915, 77558760, 77558760, 67863915, 51895935, 34597290, 20030010, 10015005, 4292145, 1560780, 475020, 118755, 23751, 3654, 406, 29, 1>>,
    <<1, 30, 435, 4060, 27405, 142506, 593775, 2035800, 5852925, 14307150, 30045015, 54627300, 86493225, 119759850, 145422675, 155117520, 145422675, 119759850, 86493225, 54627300, 30045015, 14307150, 5852925, 2035800, 593775, 142506, 27405, 4060, 435, 30, 1>>,
    <<1, 31, 465, 4495, 31465, 169911, 736281, 2629575, 7888725, 20160075, 44352165, 84672315, 141120525, 206253075, 265182525, 300540195, 300540195, 265182525, 206253075, 141120525, 84672315, 44352165, 20160075, 7888725, 2629575, 736281, 169911, 31465, 4495, 465, 31, 1>>,
    <<1, 32, 496, 4960, 35960, 201376, 906192, 3365856, 10518300, 28048800, 64512240, 129024480, 225792840, 347373600, 471435600, 565722720, 601080390, 565722720, 471435600, 347373600, 225792840, 129024480, 64512240, 28048800, 10518300, 3365856, 906192, 201376, 35960, 4960, 496, 32, 1>> >>
ASSUME /\ Len(PascalTable) = 33
       /\ \A n \in 0..32 : /\ Len(PascalTable[n + 1]) = n + 1
                             /\ PascalTable[n + 1][1] = 1 /\ PascalTable[n + 1][n + 1] = 1
                             /\ \A k \in 2..n : PascalTable[n + 1][k] = PascalTable[n][k - 1] + PascalTable[n][k]
Choose(n, k) == IF k < 0 \/ k > n \/ n < 0 THEN 0 ELSE PascalTable[n + 1][k + 1]
Min(a, b) == IF a < b THEN a ELSE b
Max(a, b) == IF a > b THEN a ELSE b

---------------------------------------------------------------------------
(* documented pmf numerators (denominator D)                               *)
BinDen(n, j) == Pow(2, j * n)
BinPmf(n, A, j, x) == IF x < 0 \/ x > n THEN 0 ELSE Choose(n, x) * Pow(A, x) * Pow(Pow(2, j) - A, n - x)      \* C(n,x) p^x (1-p)^(n-x) * D
RECURSIVE BinCdf(_, _, _, _)
BinCdf(n, A, j, x) == IF x < 0 THEN 0 ELSE BinPmf(n, A, j, x) + BinCdf(n, A, j, x - 1)

HypDen(N, n) == Choose(N, n)
HypPmf(N, K, n, y) == Choose(K, y) * Choose(N - K, n - y)                         \* / C(N, n)
RECURSIVE HypCdf(_, _, _, _)
HypCdf(N, K, n, y) == IF y < 0 THEN 0 ELSE HypPmf(N, K, n, y) + HypCdf(N, K, n, y - 1)
HypLo(N, K, n) == Max(0, n + K - N)
HypHi(N, K, n) == Min(n, K)

---------------------------------------------------------------------------
VARIABLES kind, par,   \* parameters: <<n, A, j>> or <<N, K, n>>
          t,           \* the ticket
          pc,          \* "start" | "walk" | "done"
          U, R, x,     \* scaled uniform, scaled current probability, counter
          red,         \* binv: [flipped, A1];  hin: [n1, n2, k, sign, off, xmax]
          out, words
vars == <<kind, par, t, pc, U, R, x, red, out, words>>

BINV_MAX_X == 110
RESTART == -2          \* binv gave up on this draw and draws again

HinRegime(N, K, n) ==    \* the constructor's method choice: m - max(0, k - n2) < 10 (always true for N <= 30)
    TRUE

Init ==
    /\ \/ /\ kind = "binv" /\ par \in BinvParams
          /\ t \in 0..(BinDen(par[1], par[3]) - (IF Slack THEN 0 ELSE 1))
       \/ /\ kind = "hin" /\ par \in {<<N, K, n>> \in (1..HinMaxN) \X (0..HinMaxN) \X (0..HinMaxN) : K <= N /\ n <= N}
          /\ t \in 0..(HypDen(par[1], par[3]) - (IF Slack THEN 0 ELSE 1))
    /\ pc = "start" /\ U = 0 /\ R = 0 /\ x = 0 /\ red = <<>> /\ out = -1 /\ words = 0

\* Binomial::new + first draw
StartBinv ==
    /\ kind = "binv" /\ pc = "start"
    /\ LET n == par[1] A == par[2] j == par[3] full == Pow(2, j) IN
       IF A = 0 THEN /\ out' = 0 /\ pc' = "done" /\ UNCHANGED <<U, R, x, red, words>>          \* Constant(0)
       ELSE IF A = full THEN /\ out' = n /\ pc' = "done" /\ UNCHANGED <<U, R, x, red, words>>   \* Constant(n)
       ELSE LET flipped == 2 * A > full                       \* p > 0.5
                A1 == IF flipped THEN full - A ELSE A         \* p := 1 - p
            IN  /\ red' = [flipped |-> flipped, A1 |-> A1]
                /\ U' = 2 * t + 1                             \* u = rng.random()
                /\ R' = 2 * BinPmf(n, A1, j, 0)               \* r = q^n
                /\ x' = 0 /\ words' = 1 /\ pc' = "walk" /\ out' = out
    /\ UNCHANGED <<kind, par, t>>

WalkBinv ==
    /\ kind = "binv" /\ pc = "walk"
    /\ LET n == par[1] j == par[3] IN
       IF U > R /\ x + 1 > BINV_MAX_X
         THEN \* `continue 'outer`: BINV got stuck (only the slack ticket can: r has become 0), draw again
              /\ out' = RESTART /\ pc' = "done" /\ UNCHANGED <<U, R, x>>
       ELSE IF U > R
         THEN /\ U' = U - R /\ x' = x + 1
              \* r *= a / x - s   with a = (n+1) s, s = p/q:  r_x = r_{x-1} (n - x + 1)/x * p/q  (exact;
              \* the factor is 0 at x = n + 1)
              /\ R' = 2 * BinPmf(n, red.A1, j, x + 1)
              /\ UNCHANGED <<pc, out>>
         ELSE /\ out' = IF red.flipped THEN n - x ELSE x
              /\ pc' = "done" /\ UNCHANGED <<U, R, x>>
    /\ UNCHANGED <<kind, par, t, red, words>>

\* Hypergeometric::new + first draw
StartHin ==
    /\ kind = "hin" /\ pc = "start"
    /\ LET N == par[1] K == par[2] n == par[3]
           swap1 == K > N - K                                  \* population_with_feature > population_without_feature
           n1 == IF swap1 THEN N - K ELSE K
           n2 == IF swap1 THEN K ELSE N - K
           s1 == IF swap1 THEN -1 ELSE 1
           o1 == IF swap1 THEN n ELSE 0
           swap2 == ~(n <= N \div 2)                           \* sample_size <= n / 2
           k  == IF swap2 THEN N - n ELSE n
           o2 == IF swap2 THEN o1 + n1 * s1 ELSE o1
           s2 == IF swap2 THEN -s1 ELSE s1
           x0 == IF k < n2 THEN 0 ELSE k - n2                  \* initial_x
       IN  /\ red' = [n1 |-> n1, n2 |-> n2, k |-> k, sign |-> s2, off |-> o2, xmax |-> Min(n1, k)]
           /\ U' = 2 * t + 1
           /\ R' = 2 * Choose(n1, x0) * Choose(n2, k - x0)     \* initial_p * C(N, k)
           /\ x' = x0 /\ words' = 1 /\ pc' = "walk" /\ out' = out
    /\ UNCHANGED <<kind, par, t>>

WalkHin ==
    /\ kind = "hin" /\ pc = "walk"
    /\ IF U > R /\ x < red.xmax
         THEN /\ U' = U - R /\ x' = x + 1
              \* p *= (n1 - x)(k - x);  p /= (x + 1)(n2 - k + 1 + x)      (exact: the next pmf value)
              /\ R' = 2 * Choose(red.n1, x + 1) * Choose(red.n2, red.k - x - 1)
              /\ UNCHANGED <<pc, out>>
         ELSE /\ out' = red.off + red.sign * x
              /\ pc' = "done" /\ UNCHANGED <<U, R, x>>
    /\ UNCHANGED <<kind, par, t, red, words>>

Next == StartBinv \/ WalkBinv \/ StartHin \/ WalkHin
Spec == Init /\ [][Next]_vars /\ WF_vars(Next)

---------------------------------------------------------------------------
Done == pc = "done"
RealTicket == IF kind = "binv" THEN t < BinDen(par[1], par[3]) ELSE t < HypDen(par[1], par[3])

\* C02: the ticket lies in the documented cdf interval of the outcome (either orientation:
\* a reflected sampler maps tickets to outcomes in decreasing order)
InInterval(cdfLo, cdfHi, total) ==     \* cdfLo = P(X < out) * D, cdfHi = P(X <= out) * D
    \/ (2 * cdfLo < 2 * t + 1 /\ 2 * t + 1 < 2 * cdfHi)
    \/ (2 * (total - cdfHi) < 2 * t + 1 /\ 2 * t + 1 < 2 * (total - cdfLo))

Law ==
    (Done /\ RealTicket) =>
       IF kind = "binv"
         THEN LET n == par[1] A == par[2] j == par[3] IN
              InInterval(BinCdf(n, A, j, out - 1), BinCdf(n, A, j, out), BinDen(n, j))
         ELSE LET N == par[1] K == par[2] n == par[3] IN
              InInterval(HypCdf(N, K, n, out - 1), HypCdf(N, K, n, out), HypDen(N, n))

\* C03 at design level: every outcome, also for the slack ticket, lies in the support
InSupport ==
    Done => IF kind = "binv" THEN out \in 0..par[1] \/ (out = RESTART /\ ~RealTicket)
            ELSE out \in HypLo(par[1], par[2], par[3])..HypHi(par[1], par[2], par[3])

\* C05 at design level: one word, at most n (resp. k) loop iterations
Budget == words <= 1 /\ (pc = "walk" => x <= (IF kind = "binv" THEN BINV_MAX_X ELSE red.xmax))
Termination == <>(pc = "done")
=============================================================================
