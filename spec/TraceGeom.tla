------------------------------ MODULE TraceGeom ------------------------------
(* C12 trace validation.  "lat": every lattice proposal (x = k/16) is scripted  *)
(* into UnitDisc / UnitBall / UnitCircle / UnitSphere (f32 and f64); whether the *)
(* first iteration accepted is read off the number of words consumed, outputs   *)
(* are logged quantised (a representation change) and must be the documented    *)
(* image of the proposal.  "rand": random and single-word-adversarial streams;  *)
(* the squared norm (summed by the harness in the sampler's float type) must be *)
(* 1 within 8 ordinals (circle, sphere) resp. <= 1 (disc, ball), never NaN.     *)
EXTENDS UnitGeom, Ord, Limb14, TLC, Json, IOUtils

Rec == ndJsonDeserialize(IOEnv.TRACE)
VARIABLE l
Ev == Rec[l]

Sgn(v) == IF v > 0 THEN 1 ELSE IF v < 0 THEN -1 ELSE 0
Abs(v) == IF v < 0 THEN -v ELSE v

\* "lat": lattice x = k/16, the first iteration is scripted.  "lat2": the first iteration is a scripted
\* rejected proposal, the second one is the lattice proposal k (every iteration draws fresh coordinates).
\* "fine": lattice x = k/64 (acceptance region only: finer resolution of the region's boundary and interior).
LatRule ==
    LET kd == Ev.kind  v == Ev.k  s == SumSq(v) IN
    IF kd = "circle" /\ s = 0 THEN TRUE            \* all-zero proposal: two adversarial words, outside the quantifier
    ELSE /\ Ev.res = "Ok" /\ Ev.finite                \* never NaN / infinite
         /\ Ev.words % Dim(kd) = 0                  \* Dim words per loop iteration
         /\ Ev.acc = Accept(kd, v)                  \* accepted in the scripted iteration iff the documented region says so
         /\ Ev.acc =>
              CASE kd \in {"disc", "ball"} -> \A i \in 1..Len(v) : Ev.q[i] = v[i] * 4096        \* identity output (x * 2^16)
                [] kd = "circle" -> LET n == CircNum(v) IN                                       \* q = floor(out * 2^20)
                                    /\ Abs(s * Ev.q[1] - n[1] * 1048576) <= 2 * s
                                    /\ Abs(s * Ev.q[2] - n[2] * 1048576) <= 2 * s
                [] kd = "sphere" -> LET t == SphSq(v) IN                                         \* m = floor(|out| * 2^12)
                                    /\ \A i \in 1..2 :
                                          /\ (Ev.m[i] <= 1 \/ (Ev.m[i] - 1) * (Ev.m[i] - 1) <= t[i] * 256)
                                          /\ t[i] * 256 < (Ev.m[i] + 2) * (Ev.m[i] + 2)
                                          /\ (t[i] > 0 /\ Ev.m[i] > 1) => Ev.sg[i] = Sgn(v[i])
                                    /\ Ev.q3 = SphThird(v)                                       \* out3 * 256, exact

\* ordinal distance: |a - b| <= d for limb triples
Within(a, b, d) == LLE(a, LAdd(b, <<0, 0, d>>)) /\ LLE(b, LAdd(a, <<0, 0, d>>))

RandRule ==
    /\ Ev.res = "Ok" /\ Ev.finite
    /\ IF Ev.kind \in {"circle", "sphere"} THEN Ev.degenerate \/ Within(Ev.nrm, FOne(Ev.ft), 8)
       ELSE LLE(Ev.nrm, FOne(Ev.ft))

FineRule == LET kd == Ev.kind v == Ev.k IN
            (kd = "circle" /\ SumSq(v) = 0) \/
            (/\ Ev.res = "Ok" /\ Ev.finite /\ Ev.words % Dim(kd) = 0
             /\ Ev.acc = AcceptD(kd, v, 4096)
             /\ (Ev.acc /\ kd \in {"disc", "ball"}) => \A i \in 1..Len(v) : Ev.q[i] = v[i] * 1024)      \* x * 2^16, x = k/64

\* "edge": the acceptance region at the full resolution of the proposal lattice (x = a / d, d = 2^22 for f32, 2^51 for f64).
\* For a column (all but the last coordinate fixed, |x| <= 0.98) the harness reports the last accepted index L >= 0 of the last
\* coordinate; the documented region says  S + L^2 <= d^2 < S + (L + 1)^2  (S = sum of the squared fixed coordinates; "<" for the
\* open regions of circle and sphere), here with two lattice steps of slack for the rounding of the sum of squares in the
\* sampler's float type (0.125 / y steps at height y >= 0.2), in exact base-2^14 arithmetic.
RECURSIVE SqSum(_)
SqSum(fs) == IF Len(fs) = 0 THEN <<0>> ELSE Add14(Mul(Head(fs), Head(fs)), SqSum(Tail(fs)))
EdgeRule == /\ Ev.res = "Ok" /\ ~Ev.zero_rejected
            /\ LET S == SqSum(Ev.fixed)  DD == Mul(Ev.d, Ev.d)
                    inner == IF Cmp(Ev.last, <<2>>) >= 0 THEN SubFrom(Ev.last, <<2>>, 1, 0) ELSE <<0>>
                    outer == Add14(Ev.last, <<3>>)
                IN  /\ Cmp(Add14(S, Mul(inner, inner)), DD) <= 0          \* two steps inside the reported edge: in the region
                    /\ Cmp(Add14(S, Mul(outer, outer)), DD) > 0           \* three steps beyond it: outside
\* "img": the returned point is the documented image of the accepted proposal (8 ordinals per component)
ImgRule == Ev.res = "Ok" /\ Ev.finite /\ Len(Ev.got) = Len(Ev.ref) /\ \A i \in 1..Len(Ev.got) : Within(Ev.got[i], Ev.ref[i], 8)

Rule == CASE Ev.op \in {"lat", "lat2"} -> LatRule [] Ev.op = "edge" -> EdgeRule [] Ev.op = "img" -> ImgRule [] Ev.op = "fine" -> FineRule [] Ev.op = "rand" -> RandRule /\ Ev.words % Dim(Ev.kind) = 0 [] OTHER -> FALSE

TInit == l = 1 /\ kind = "trace" /\ pc = "trace" /\ k = <<>> /\ words = 0 /\ iters = 0
TNext == /\ l <= Len(Rec) /\ l' = l + 1 /\ UNCHANGED vars
         /\ IF Rule THEN TRUE ELSE PrintT(<<"TRACE-BAD", l, ToJson(Ev)>>)
TSpec == TInit /\ [][TNext]_<<vars, l>>
TraceAccepted ==
    LET d == TLCGet("stats").diameter IN
    IF d - 1 = Len(Rec) THEN TRUE
    ELSE PrintT(<<"TRACE-REJECTED", "first unmatched line", d, ToJson(Rec[d])>>) /\ FALSE
=============================================================================
