----------------------------- MODULE MCDiscrete -----------------------------
EXTENDS DiscreteExact, TLC, IOUtils
Tier == IOEnv.TIER
\* n*min(p,1-p) < 10 everywhere; D = 2^(j n) <= 2^20
MC_Binv == IF Tier = "thorough"
             THEN {<<n, A, 2>> : n \in 1..8, A \in 0..4} \cup {<<n, A, 1>> : n \in 1..10, A \in 0..2} \cup {<<19, 1, 1>>} \cup {<<6, A, 3>> : A \in {1, 3, 5, 7}}
             ELSE {<<n, A, 2>> : n \in 1..6, A \in 0..4} \cup {<<n, A, 1>> : n \in {1, 2, 5, 10}, A \in 0..2} \cup {<<4, 3, 3>>, <<4, 5, 3>>}
MC_HinMaxN == IF Tier = "thorough" THEN 12 ELSE 9
=============================================================================
