------------------------------- MODULE Ziggurat -------------------------------
(***************************************************************************)
(* C06, sub-claims 1 and 3: the ZIGNOR loop of utils::ziggurat as an       *)
(* automaton over the observable facts of one call:                        *)
(*   the first word's low 8 bits select the layer i; its high bits give u  *)
(*   (symmetric: sign from bit 63); rectangle test |u x_i| < x_{i+1}       *)
(*   -> return after ONE word; i = 0 -> tail routine (normal: pairs of     *)
(*   Open01 draws until accepted, result beyond R with the sign of u;      *)
(*   exponential: one more word, result >= R); otherwise wedge test with   *)
(*   ONE more word, accepted -> return x in the wedge of layer i, rejected *)
(*   -> next iteration.                                                    *)
(* Classify(..) says which outcome classes a call with the given word      *)
(* count and result is consistent with; the trace specification requires   *)
(* every recorded call to be consistent with the layer its first word      *)
(* selects.  (The accept/reject decision inside the wedge compares with    *)
(* exp(-x^2/2) / exp(-x) and is not decided here.)                          *)
(***************************************************************************)
EXTENDS Ord, Integers, Sequences

\* X(i): ordinal limbs of |x_tab[i]| (from the exported table), R likewise; a = ordinal limbs of |out|
RectOK(a, X, i)  == LLT(a, X[i + 2])                          \* |x| < x_tab[i+1]     (X is 1-based: X[i+1] = x_tab[i])
WedgeOK(a, X, i) == LLE(X[i + 2], a) /\ LLT(a, X[i + 1])      \* x_tab[i+1] <= |x| < x_tab[i]
TailOK(a, R)     == LLE(R, a)                                 \* |x| >= R

\* one call that finished in its first loop iteration
FirstIterationOK(dist, i, nwords, a, X, R) ==
    \/ nwords = 1 /\ RectOK(a, X, i)
    \/ i >= 1 /\ nwords = 2 /\ WedgeOK(a, X, i)
    \/ i = 0 /\ dist = "exp"  /\ nwords = 2 /\ TailOK(a, R)
    \/ i = 0 /\ dist = "norm" /\ nwords >= 3 /\ nwords % 2 = 1 /\ TailOK(a, R)
=============================================================================
