SPECIFICATION Spec
INVARIANTS TypeOK Emit
PROPERTY ClassStable
CHECK_DEADLOCK FALSE
