--------------------------- MODULE TraceQuantile ---------------------------
(* C01 trace validation for the one-uniform samplers: "q" events carry the    *)
(* count of words with S(w) <= x for one anchor (exact sweep for f32,          *)
(* witnessed bisection per half for f64), "mono" events sorted words with the  *)
(* ordinals of S, "one" events the word consumption of ordinary calls.         *)
EXTENDS Quantile, TLC, Json, IOUtils

Rec == ndJsonDeserialize(IOEnv.TRACE)
VARIABLE l
Ev == Rec[l]

QRule == LET c == CaseOf(Ev.case)  a == c.anchors[Ev.anchor] IN
         /\ Ev.res = "Ok"
         /\ c.fam = Ev.fam /\ a.x = Ev.x                       \* the event is about the table's anchor
         /\ CountOK(Ev.ft, Ev.cnt, Ev.excl, a)
         /\ Ev.method = "bisect" =>
               /\ \A i \in 1..Len(Ev.wit) : WitnessOK(Ev.wit[i], Ev.xo)
               /\ Len(Ev.wit) = 2 /\ LEQ(Ev.cnt, LAdd(Ev.wit[1].n, Ev.wit[2].n))

MonoRule == /\ Ev.res = "Ok"
            /\ IF Ev.dir = 1 THEN NonDecr(Ev.ords) ELSE NonIncr(Ev.ords)
            /\ Len(Ev.ords) >= 2

\* ordinary calls consume one word (the redraw of Gumbel / Frechet at u = 1 is the only exception: at most Ev.redraws
\* of the Ev.calls words, all with the top bits set)
OneRule == Ev.res = "Ok" /\ Ev.multi <= Ev.allowed

Rule == CASE Ev.op = "q" -> QRule [] Ev.op = "mono" -> MonoRule [] Ev.op = "one" -> OneRule [] Ev.op = "sup" -> SupOK(Ev) [] OTHER -> FALSE

TInit == l = 1
TNext == /\ l <= Len(Rec) /\ l' = l + 1
         /\ IF Rule THEN TRUE ELSE PrintT(<<"TRACE-BAD", l, ToJson(Ev)>>)
TSpec == TInit /\ [][TNext]_l
TraceAccepted ==
    LET d == TLCGet("stats").diameter IN
    IF d - 1 = Len(Rec) THEN TRUE
    ELSE PrintT(<<"TRACE-REJECTED", "first unmatched line", d, ToJson(Rec[d])>>) /\ FALSE
=============================================================================
