----------------------------- MODULE Kolmogorov -----------------------------
(***************************************************************************)
(* C13: exact induced law of the single-draw f32 samplers.  Pushing each   *)
(* of the 2^24 equiprobable values of the uniform draw through sample()    *)
(* gives the exact f32 law  Fn(x) = |{t : S(t) <= x}| / 2^24.  The         *)
(* property bounds its Kolmogorov distance to the documented CDF F by      *)
(*        2^-24 (1.5 + 8 sup|x f(x)|).                                     *)
(* Decided here POINTWISE, at the anchors of KolmogorovTable (f32 values   *)
(* x, 23 per case from F = 2^-20 to 1 - 2^-20): |Fn(x) - F(x)| <= bound,   *)
(* with Fn(x) an exact count and F(x), the bound mpmath constants of the   *)
(* table.  The supremum over all x between anchors is not decided.         *)
(***************************************************************************)
EXTENDS Ord, KolmogorovTable, Sequences, Integers, IOUtils

KT == IF "TIER" \in DOMAIN IOEnv /\ IOEnv.TIER = "thorough" THEN KTableT ELSE KTable

KCase(id) == KT[id]
Near(a, b, d) == LLE(a, LAdd(b, d)) /\ LLE(b, LAdd(a, d))
KOK(cnt, a, c) == Near(cnt, a.P, c.B)

\* every reachable f32 output lies in the support (all 2^24 draws): finite, and inside the documented interval
\* (Triangular: up to 4 ordinals beyond the bounds, as C03 states)
SupOK(e) == /\ e.res = "Ok" /\ e.nan = 0 /\ e.pinf = 0 /\ e.ninf = 0 /\ e.hasfin
            /\ CASE e.fam = "Pareto"     -> LLE(e.po[1], e.min)
                 [] e.fam = "Weibull"    -> LLE(FZero, e.min)
                 [] e.fam = "Frechet"    -> LLE(e.po[1], e.min)
                 [] e.fam = "Triangular" -> LLE(e.po[1], LAdd(e.min, <<0, 0, 4>>)) /\ LLE(e.max, LAdd(e.po[2], <<0, 0, 4>>))
                 [] OTHER -> TRUE

One == <<4194304, 0, 0>>    \* 2^64
KTableOK == \A c \in 1..Len(KT) :
               LET A == KT[c].anchors IN
               /\ KT[c].id = c /\ Len(A) >= 10
               /\ \A k \in 1..(Len(A) - 1) : LLE(A[k].P, A[k + 1].P)       \* a CDF along increasing anchors
               /\ \A k \in 1..Len(A) : LLE(A[k].P, One)
               /\ LLE(<<0, 786432, 0>>, KT[c].B)                        \* B >= 1.5 * 2^40
ASSUME KTableOK
=============================================================================
