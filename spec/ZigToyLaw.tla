----------------------------- MODULE ZigToyLaw -----------------------------
EXTENDS ZigToy, TLC
ASSUME PrintT(<<"ZIGTOY", Variant, [c \in 0..15 |-> Cardinality(Cell(c))]>>)
ASSUME LawHolds
=============================================================================
