--------------------------- MODULE TraceRejection ---------------------------
(* C02 trace validation for Zipf / Zeta in f32: a "law" event carries the exact induced probabilities A_k / A  *)
(* (k = 1..K and the tail) measured over the 2^24 x 2^24 ticket lattice, and probes of the acceptance region.   *)
EXTENDS Rejection2, TLC, Json, IOUtils

Rec == ndJsonDeserialize(IOEnv.TRACE)
VARIABLE l
Ev == Rec[l]

\* the acceptance region of a proposal word is a prefix of the acceptance lattice
ProbeOK(p) == p.accepted = (p.ypat < p.acc)

LawRule == LET c == RCase(Ev.case) IN
           /\ Ev.res = "Ok" /\ c.fam = Ev.fam
           /\ Ev.other = 0                                  \* every proposal word is accepted by the most favourable acceptance word after exactly two words
           /\ Ev.nonint = 0                                 \* integer outputs only
           /\ \A i \in 1..Len(Ev.probes) : ProbeOK(Ev.probes[i])
           /\ PmfOK(Ev.P, LAdd(Ev.tail, Ev.oneword), c)    \* Zeta's documented +inf (proposal overflow) belongs to the tail

\* Beta: cumulative law at the anchors; proposals that not even the most favourable acceptance word accepts (Ev.other) have
\* acceptance mass below one ticket and contribute nothing
LawCRule == LET c == BCase(Ev.case) IN
            /\ Ev.res = "Ok" /\ c.fam = Ev.fam
            /\ Ev.nonint = 0                                \* no NaN output
            /\ Len(Ev.xs) = Len(c.anchors) /\ \A j \in 1..Len(Ev.xs) : Ev.xs[j] = c.anchors[j].x
            /\ \A i \in 1..Len(Ev.probes) : ProbeOK(Ev.probes[i])
            /\ CdfOK(Ev.P, c)

\* Knuth's multiplication method: X = number of factors drawn - 1, so X = 0 iff the call returns after one word (a prefix of
\* the word range: exp(-lambda) exactly, up to the lattice) and, in f32, X <= 1 iff it returns after two (2^48 tickets)
KTol(ft) == IF ft = "f32" THEN <<4, 0, 0>> ELSE <<0, 0, 8192>>        \* 2^-20 resp. 2^-51 (four steps of the 53-bit uniform)
Knuth32Rule == LET c == NTable[Ev.case] IN
               /\ Ev.res = "Ok" /\ c.fam = Ev.fam /\ Ev.other = 0 /\ Ev.nonint = 0
               /\ \A i \in 1..Len(Ev.probes) : ProbeOK(Ev.probes[i])
               /\ Near(Ev.oneword, c.p0, KTol("f32")) /\ Len(Ev.P) = 1 /\ Near(Ev.P[1], c.p1, KTol("f32"))
Knuth64Rule == LET c == NTable[Ev.case] IN
               /\ Ev.res = "Ok" /\ c.fam = Ev.fam /\ Ev.witness
               /\ Near(Ev.p0, c.p0, KTol("f64"))

Rule == CASE Ev.op = "law" -> LawRule [] Ev.op = "lawc" -> LawCRule [] Ev.op = "knuth32" -> Knuth32Rule [] Ev.op = "knuth64" -> Knuth64Rule [] OTHER -> FALSE

TInit == l = 1
TNext == /\ l <= Len(Rec) /\ l' = l + 1
         /\ IF Rule THEN TRUE ELSE PrintT(<<"TRACE-BAD", l, ToJson(Ev)>>)
TSpec == TInit /\ [][TNext]_l
TraceAccepted ==
    LET d == TLCGet("stats").diameter IN
    IF d - 1 = Len(Rec) THEN TRUE
    ELSE PrintT(<<"TRACE-REJECTED", "first unmatched line", d, ToJson(Rec[d])>>) /\ FALSE
=============================================================================
