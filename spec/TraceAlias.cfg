SPECIFICATION TSpec
CONSTANTS
  MAXW <- TraceM
  Vectors = {}
POSTCONDITION TraceAccepted
CHECK_DEADLOCK FALSE
