-------------------------------- MODULE MCGeo --------------------------------
(* Prints the Geometric anchors of GeoTable as cases for the harness *)
EXTENDS GeoTable, Sequences, Integers, TLC, Json, IOUtils
TT == IF "TIER" \in DOMAIN IOEnv /\ IOEnv.TIER = "thorough" THEN GTabT ELSE GTab
VARIABLE c
Init == c = 0
Next == /\ c < Len(TT) /\ c' = c + 1
        /\ PrintT(<<"CASE", ToJson([kernel |-> "geo", id |-> TT[c'].id, p |-> TT[c'].p, triv |-> TT[c'].triv, k |-> TT[c'].k,
                                    ms |-> [i \in 1..Len(TT[c'].ms) |-> TT[c'].ms[i].m]])>>)
Spec == Init /\ [][Next]_c
=============================================================================
