-------------------------------- MODULE MCPd --------------------------------
(* Prints the PD anchors of PdTable as cases for the harness *)
EXTENDS PdTable, Sequences, Integers, TLC, Json, IOUtils
TT == IF "TIER" \in DOMAIN IOEnv /\ IOEnv.TIER = "thorough" THEN PTabT ELSE PTab
VARIABLE c
Init == c = 0
Next == /\ c < Len(TT) /\ c' = c + 1
        /\ PrintT(<<"CASE", ToJson([kernel |-> "pd", id |-> TT[c'].id, lambda |-> TT[c'].lambda, ks |-> [j \in 1..Len(TT[c'].ks) |-> TT[c'].ks[j].k],
                                     es |-> [j \in 1..Len(TT[c'].hs) |-> TT[c'].hs[j].e]])>>)
Spec == Init /\ [][Next]_c
=============================================================================
