-------------------------------- MODULE MCPd --------------------------------
(* Prints the PD anchors of PdTable as cases for the harness *)
EXTENDS PdTable, Sequences, Integers, TLC, Json
VARIABLE c
Init == c = 0
Next == /\ c < Len(PTab) /\ c' = c + 1
        /\ PrintT(<<"CASE", ToJson([kernel |-> "pd", id |-> PTab[c'].id, lambda |-> PTab[c'].lambda, ks |-> [j \in 1..Len(PTab[c'].ks) |-> PTab[c'].ks[j].k],
                                     es |-> [j \in 1..Len(PTab[c'].hs) |-> PTab[c'].hs[j].e]])>>)
Spec == Init /\ [][Next]_c
=============================================================================
