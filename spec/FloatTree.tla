------------------------------ MODULE FloatTree ------------------------------
(***************************************************************************)
(* C10 (float weights), design level: WeightedTreeIndex over a MINIFLOAT   *)
(* with SIG significant bits and round-to-nearest-even addition and        *)
(* subtraction, everything else as in WeightedTree.tla / the code          *)
(* (bottom-up build, get = subtotal - left - right, the target descent     *)
(* with `target -= subtotal`, the two post-condition assertions).          *)
(*                                                                         *)
(* Values are non-negative integers in units of the smallest step; a value *)
(* is representable iff it has at most SIG significant bits.  TLC searches *)
(* all trees of up to MaxLen representable weights from W and all          *)
(* representable targets below the total for a target that trips           *)
(* `assert!(target_weight < self.get(index))` although is_valid() holds:   *)
(* the defect recorded as KF-TREE-FLOAT-ASSERT is a property of the        *)
(* algorithm under rounding, not of one unlucky input.                     *)
(***************************************************************************)
EXTENDS Integers, Sequences, FiniteSets

CONSTANTS SIG, MaxLen, W      \* W: set of representable weights used

RECURSIVE Log2(_)
Log2(x) == IF x <= 1 THEN 0 ELSE 1 + Log2(x \div 2)
RECURSIVE P2(_)
P2(e) == IF e = 0 THEN 1 ELSE 2 * P2(e - 1)

\* round a non-negative exact value to SIG significant bits, ties to even
RN(x) == IF x < P2(SIG) THEN x
         ELSE LET s == Log2(x) - (SIG - 1)
                  q == x \div P2(s)
                  r == x % P2(s)
                  half == P2(s - 1)
                  up == r > half \/ (r = half /\ q % 2 = 1)
              IN  (IF up THEN q + 1 ELSE q) * P2(s)
Rep(x) == RN(x) = x
FAdd(a, b) == RN(a + b)
FSub(a, b) == IF a >= b THEN RN(a - b) ELSE -RN(b - a)      \* may go negative through rounding of earlier sums

VARIABLES ws, sub, pc
vars == <<ws, sub, pc>>

Parent(i) == (i - 1) \div 2
RECURSIVE BuildFrom(_, _)
BuildFrom(s, i) == IF i = 0 THEN s
                   ELSE BuildFrom([s EXCEPT ![Parent(i) + 1] = FAdd(s[Parent(i) + 1], s[i + 1])], i - 1)
Build(l) == IF Len(l) = 0 THEN l ELSE BuildFrom(l, Len(l) - 1)

Subtotal(s, i) == IF i < Len(s) THEN s[i + 1] ELSE 0
Get(s, i) == FSub(FSub(s[i + 1], Subtotal(s, 2 * i + 1)), Subtotal(s, 2 * i + 2))

RECURSIVE Descend(_, _, _)
Descend(s, i, t) ==
    LET ls == Subtotal(s, 2 * i + 1) IN
    IF t < ls THEN Descend(s, 2 * i + 1, t)
    ELSE LET t1 == FSub(t, ls)  rs == Subtotal(s, 2 * i + 2) IN
         IF t1 < rs THEN Descend(s, 2 * i + 2, t1)
         ELSE <<i, FSub(t1, rs)>>

Init == /\ ws \in UNION {[1..n -> W] : n \in 1..MaxLen}
        /\ sub = <<>> /\ pc = "new"
New  == pc = "new" /\ sub' = Build(ws) /\ pc' = "built" /\ UNCHANGED ws
Spec == Init /\ [][New]_vars

Total == IF Len(sub) = 0 THEN 0 ELSE sub[1]
Targets == {t \in 0..(Total - 1) : Rep(t)}            \* random_range(0..total) returns representable values below the total

\* the documented guarantee: is_valid() => sampling does not panic
NoAssertPanic ==
    (pc = "built" /\ Total > 0) =>
        \A t \in Targets : LET d == Descend(sub, 0, t) IN d[2] >= 0 /\ d[2] < Get(sub, d[1])
=============================================================================
