---------------------------- MODULE MCKolmogorov ----------------------------
(* Prints the cases of KolmogorovTable for the harness *)
EXTENDS Kolmogorov, TLC, Json
VARIABLE c
Init == c = 0
Next == /\ c < Len(KT) /\ c' = c + 1
        /\ PrintT(<<"CASE", ToJson([id |-> KT[c'].id, fam |-> KT[c'].fam, params |-> KT[c'].params,
                                     xs |-> [k \in 1..Len(KT[c'].anchors) |-> KT[c'].anchors[k].x]])>>)
Spec == Init /\ [][Next]_c
=============================================================================
