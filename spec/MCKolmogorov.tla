---------------------------- MODULE MCKolmogorov ----------------------------
(* Prints the cases of KolmogorovTable for the harness *)
EXTENDS Kolmogorov, TLC, Json
VARIABLE c
Init == c = 0
Next == /\ c < Len(KTable) /\ c' = c + 1
        /\ PrintT(<<"CASE", ToJson([id |-> KTable[c'].id, fam |-> KTable[c'].fam, params |-> KTable[c'].params,
                                     xs |-> [k \in 1..Len(KTable[c'].anchors) |-> KTable[c'].anchors[k].x]])>>)
Spec == Init /\ [][Next]_c
=============================================================================
