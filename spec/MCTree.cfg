SPECIFICATION Spec
CONSTANTS
  MAXW <- M
  MaxLen <- EnvMaxLen
  PushVals <- MC_PushVals
  UpdVals <- MC_UpdVals
  UpdIdx <- MC_UpdIdx
  NewLists <- MC_NewLists
CONSTRAINT LenBound
INVARIANTS TypeOK Canonical Observers StepProps LawSmall PanicSmall
CHECK_DEADLOCK FALSE
