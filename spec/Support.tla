------------------------------ MODULE Support ------------------------------
(***************************************************************************)
(* C03: the support of every distribution of the crate as a predicate over *)
(* (family, parameters, one sample), in the exact order arithmetic of      *)
(* Ord.tla; and the documented exceptions where an infinite result is      *)
(* named by the documentation itself.                                      *)
(*                                                                         *)
(* An observation is a record with                                         *)
(*   fam, ft, p (parameter limbs), out (limbs per output component),       *)
(*   ocls (class per component: "fin" "nan" "pinf" "ninf" "int"),          *)
(*   integral (every float component has no fractional part),              *)
(*   wpos (weighted indices: the weight of the returned index is > 0),     *)
(*   lo4/hi4 (Triangular, Pert: [min, max] widened by 4 ulp of the larger  *)
(*   bound).                                                               *)
(***************************************************************************)
EXTENDS Ord, FiniteSets

\* o = [out |-> limbs per component, ocls |-> class per component, integral, wpos]
AllFin(o)   == \A i \in 1..Len(o.ocls) : o.ocls[i] = "fin"
AllGE(o, b) == \A i \in 1..Len(o.out) : LLE(b, o.out[i])
AllLE(o, b) == \A i \in 1..Len(o.out) : LLE(o.out[i], b)

RealLine  == {"StandardNormal", "Normal", "Cauchy", "Gumbel", "StudentT", "SkewNormal", "NormalInverseGaussian"}
NonNeg    == {"LogNormal", "Exp1", "Exp", "Gamma", "ChiSquared", "FisherF", "InverseGaussian", "Weibull"}
UnitCoord == {"UnitCircle", "UnitDisc", "UnitSphere", "UnitBall"}

ZetaNearOne(ft) == IF ft = "f32" THEN <<2097152, 508, 1677722>> ELSE <<3144765, 922746, 1845494>>      \* ordinals of 1.2f32 and 1.06f64

\* results the documentation itself names as infinite
DocumentedInfinite(e) ==
    \/ e.fam = "Exp" /\ LEQ(e.p[1], FZero) /\ e.ocls = <<"pinf">>          \* Exp(0): always +inf
    \* Zeta: x = u^(-1/(s-1)) overflows only for s close to 1: u >= 2^-53 (2^-24) gives a finite x
    \* as soon as s - 1 > 53 ln2 / 709 = 0.052 (f64) resp. 24 ln2 / 88.7 = 0.19 (f32)
    \/ e.fam = "Zeta" /\ e.ocls = <<"pinf">> /\ LLE(e.p[1], ZetaNearOne(e.ft))

InSupportO(e, o) ==
    CASE e.fam \in RealLine  -> AllFin(o)
      [] e.fam \in NonNeg    -> AllFin(o) /\ AllGE(o, FZero)
      [] e.fam = "Beta"      -> AllFin(o) /\ AllGE(o, FZero) /\ AllLE(o, FOne(e.ft))
      [] e.fam = "Pareto"    -> AllFin(o) /\ AllGE(o, e.p[1])                \* >= scale
      [] e.fam = "Frechet"   -> AllFin(o) /\ AllGE(o, e.p[1])                \* >= location
      [] e.fam \in {"Triangular", "Pert"} -> AllFin(o) /\ AllGE(o, e.lo4) /\ AllLE(o, e.hi4)
      \* coordinates of unit-geometry samples: |x| <= 1 up to the few ulp the norm itself is allowed (C12)
      [] e.fam \in UnitCoord -> AllFin(o) /\ AllGE(o, LSub(FMOne(e.ft), <<0, 0, 4>>)) /\ AllLE(o, LAdd(FOne(e.ft), <<0, 0, 4>>))
      [] e.fam = "Dirichlet" -> AllFin(o) /\ (o.agg \/ Len(o.out) = e.np) /\ AllGE(o, FZero) /\ AllLE(o, FOne(e.ft))
      [] e.fam = "Zipf"      -> AllFin(o) /\ o.integral /\ AllGE(o, FOne(e.ft)) /\ AllLE(o, e.p[1])
      [] e.fam = "Zeta"      -> AllFin(o) /\ o.integral /\ AllGE(o, FOne(e.ft))
      [] e.fam = "Poisson"   -> AllFin(o) /\ o.integral /\ AllGE(o, FZero)
      [] e.fam = "Binomial"  -> LLE(o.out[1], e.p[1])                        \* <= n
      [] e.fam \in {"Geometric", "StandardGeometric"} -> TRUE              \* any u64 (Geometric(0) = u64::MAX)
      [] e.fam = "Hypergeometric" ->                                         \* [max(0, n+K-N), min(n, K)]
             LET N == e.p[1]  K == e.p[2]  n == e.p[3]
                 s == LAdd(n, K)
                 lo == IF LLE(N, s) THEN LSub(s, N) ELSE LZero
             IN  LLE(lo, o.out[1]) /\ LLE(o.out[1], LMin(n, K))
      [] e.fam \in {"WeightedAliasIndex", "WeightedTreeIndex"} ->
             LLT(o.out[1], <<0, 0, e.np>>) /\ o.wpos                         \* < len, non-zero weight
      [] OTHER -> FALSE

InSupport(e) == InSupportO(e, [out |-> e.out, ocls |-> e.ocls, integral |-> e.integral, wpos |-> e.wpos, agg |-> FALSE])

\* the rule for one sample() call
SampleOK(e) == e.res = "Ok" /\ (InSupport(e) \/ DocumentedInfinite(e))

\* aggregated sweep over all 2^24 f32 patterns of one word: every support here is an order
\* interval (plus integrality / weight flags), so min and max decide
\* (also used for random-stream blocks: min / max / counters over many calls; a component-wise aggregate, so families
\* whose support is not the same interval for every component - none here - would need per-component aggregates)
SweepOK(e) ==
    LET cl == IF e.fam \in {"WeightedAliasIndex", "WeightedTreeIndex", "Binomial", "Hypergeometric", "Geometric", "StandardGeometric"} THEN "int" ELSE "fin"
        lo == [out |-> <<e.min>>, ocls |-> <<cl>>, integral |-> TRUE, wpos |-> TRUE, agg |-> TRUE]
        hi == [out |-> <<e.max>>, ocls |-> <<cl>>, integral |-> TRUE, wpos |-> TRUE, agg |-> TRUE]
        okinf == (e.fam = "Zeta" /\ LLE(e.p[1], ZetaNearOne(e.ft))) \/ (e.fam = "Exp" /\ LEQ(e.p[1], FZero))
    IN  /\ e.panic = 0 /\ e.nan = 0 /\ e.ninf = 0 /\ (e.pinf = 0 \/ okinf)
        /\ e.nonint = 0 /\ e.zerow = 0
        /\ e.hasfin => (InSupportO(e, lo) /\ InSupportO(e, hi))
=============================================================================
