----------------------------- MODULE TraceAlias -----------------------------
(* Trace validation for WeightedAliasIndex::new / weights() on random       *)
(* vectors (lengths up to 10^4, adversarial magnitude mixes) recorded from  *)
(* the real integer weight types.  Weights are logged in the per-length     *)
(* two-scale (v <= 100000 as is; W::MAX/len - d as Q - d; W::MAX/len + 1 as *)
(* Q + 1 with Q = M \div len), which preserves every comparison the         *)
(* documented verdict depends on.  Each event is independent of the others: *)
(* a violating event is printed and consumed.                               *)
EXTENDS WeightedAlias, TLC, Json, IOUtils

TraceM == atoi(IOEnv.M)
Rec    == ndJsonDeserialize(IOEnv.TRACE)

VARIABLE l
tvars == <<pc, w, n, S, odds, alias, sh, bh, k, verdict, l>>
Ev == Rec[l]

\* documented verdict and exact reconstruction (C08)
AliasRule == /\ Ev.verdict = DocVerdict(Ev.w)
             /\ Ev.verdict = "Ok" => Ev.rw = Ev.w

TAlias == /\ Ev.op = "alias"
          /\ IF AliasRule THEN TRUE ELSE PrintT(<<"TRACE-BAD", l, ToJson([ty |-> Ev.ty, len |-> Ev.len, verdict |-> Ev.verdict,
                                                           want |-> DocVerdict(Ev.w),
                                                           w |-> SubSeq(Ev.w, 1, IF Len(Ev.w) < 12 THEN Len(Ev.w) ELSE 12),
                                                           rw |-> SubSeq(Ev.rw, 1, IF Len(Ev.rw) < 12 THEN Len(Ev.rw) ELSE 12)])>>)

\* float vectors: documented verdict from the logged class flags; reconstruction "to rounding
\* error" as err <= 8 + 4*len units of eps*max(w_i, sum/len) (declared tolerance)
FlagVerdict(f) == IF f.empty THEN "InvalidInput"
                  ELSE IF f.nan \/ f.neg \/ f.big THEN "InvalidWeight"
                  ELSE IF f.allzero THEN "InsufficientNonZero" ELSE "Ok"
FAliasRule == /\ Ev.verdict = FlagVerdict(Ev.flags)
              /\ Ev.verdict = "Ok" => Ev.err <= 8 + 4 * Ev.len
TFAlias == /\ Ev.op = "falias"
           /\ IF FAliasRule THEN TRUE ELSE PrintT(<<"TRACE-BAD", l, ToJson(Ev)>>)

TInit == /\ l = 1 /\ pc = "trace" /\ w = <<>> /\ n = 0 /\ S = 0 /\ odds = <<>> /\ alias = <<>>
         /\ sh = NONE /\ bh = NONE /\ k = 0 /\ verdict = "-"
TNext == /\ l <= Len(Rec) /\ l' = l + 1 /\ (TAlias \/ TFAlias)
         /\ UNCHANGED <<pc, w, n, S, odds, alias, sh, bh, k, verdict>>
TSpec == TInit /\ [][TNext]_tvars

TraceAccepted ==
    LET d == TLCGet("stats").diameter IN
    IF d - 1 = Len(Rec) THEN TRUE
    ELSE PrintT(<<"TRACE-REJECTED", "first unmatched line", d, ToJson(Rec[d])>>) /\ FALSE
=============================================================================
