---------------------------- MODULE TraceDiscrete ----------------------------
(* C02 trace validation (exact regimes).  The harness scripts one RNG word per *)
(* ticket and records, per parameter point,                                    *)
(*   "hist":   the histogram of outcomes over ALL D tickets - must equal the   *)
(*             documented pmf numerators, which this module computes itself    *)
(*             (arrangement-agnostic: any correct inverse transform passes);   *)
(*   "ticket": single tickets next to cdf breakpoints for larger parameters -  *)
(*             the outcome's documented cdf interval must contain the ticket;  *)
(*   "geo" / "bf" / "sgeo": Geometric (trivial and Bringmann-Friedrich) and    *)
(*             StandardGeometric on scripted draw classes.                     *)
(* An event whose calls did not consume exactly the words of the inverse-      *)
(* transform design is outside the exact regime and is not judged (guard) -    *)
(* unless only a minority of the tickets did ("mixed"): that is the one-word   *)
(* design with restarts it does not have (BINV restarts only beyond x = 110,   *)
(* HIN never), and is a violation.                                             *)
EXTENDS DiscreteExact, TLC, Json, IOUtils

Rec == ndJsonDeserialize(IOEnv.TRACE)
VARIABLE l
Ev == Rec[l]

InRegime == Ev.guard_ok

HistRule ==
    IF Ev.kind = "binv"
      THEN LET n == Ev.par[1] A == Ev.par[2] j == Ev.par[3] IN
           /\ Len(Ev.counts) = n + 1
           /\ \A y \in 0..n : Ev.counts[y + 1] = BinPmf(n, A, j, y)
      ELSE LET N == Ev.par[1] K == Ev.par[2] n == Ev.par[3] IN
           /\ Len(Ev.counts) = n + 1
           /\ \A y \in 0..n : Ev.counts[y + 1] = HypPmf(N, K, n, y)
           /\ Ev.other = 0                                        \* nothing outside 0..n

TicketRule ==       \* single ticket: 2t+1 in the outcome's cdf interval (either orientation), out in 0..n
    LET tt == Ev.t IN
    IF Ev.kind = "binv"
      THEN LET n == Ev.par[1] A == Ev.par[2] j == Ev.par[3] lo == BinCdf(n, A, j, Ev.out - 1) hi == BinCdf(n, A, j, Ev.out) tot == BinDen(n, j) IN
           Ev.out \in 0..n /\ ((2 * lo < 2 * tt + 1 /\ 2 * tt + 1 < 2 * hi) \/ (2 * (tot - hi) < 2 * tt + 1 /\ 2 * tt + 1 < 2 * (tot - lo)))
      ELSE LET N == Ev.par[1] K == Ev.par[2] n == Ev.par[3] lo == HypCdf(N, K, n, Ev.out - 1) hi == HypCdf(N, K, n, Ev.out) tot == HypDen(N, n) IN
           Ev.out \in 0..n /\ ((2 * lo < 2 * tt + 1 /\ 2 * tt + 1 < 2 * hi) \/ (2 * (tot - hi) < 2 * tt + 1 /\ 2 * tt + 1 < 2 * (tot - lo)))

\* Zipf(n, 0) is documented to be the uniform law on 1..n: every value gets d/n of the d tickets
Zipf0Rule == /\ Len(Ev.counts) = Ev.n /\ Ev.other = 0 /\ Ev.panics = 0
             /\ \A v \in 1..Ev.n : Ev.counts[v] * Ev.n = Ev.d

\* Geometric, trivial algorithm (p >= 2/3): draws are classified by the harness' script as
\* "s" (u <= p: success) or "f"; the result is the number of leading failures
RECURSIVE LeadingF(_)
LeadingF(cs) == IF Len(cs) = 0 \/ Head(cs) = "s" THEN 0 ELSE 1 + LeadingF(Tail(cs))
GeoRule == Ev.out = LeadingF(Ev.cells) /\ Ev.words = Ev.out + 1

\* Bringmann-Friedrich (p < 2/3): d = number of leading draws below pi = (1-p)^(2^k); then
\* repeat { m = word & (2^k - 1); accept iff u < (1-p)^m }; result d*2^k + m.
\* Ev.dcells: "b" (below pi) ... then "a"; Ev.mtry: sequence of <<m, "acc"|"rej">> ending in acc
RECURSIVE LeadingB(_)
LeadingB(cs) == IF Len(cs) = 0 \/ Head(cs) = "a" THEN 0 ELSE 1 + LeadingB(Tail(cs))
\* k = smallest k >= 1 with (1-p)^(2^k) <= 1/2, for p = a/2^j   (geometric.rs: Geometric::new)
RECURSIVE KFrom(_, _, _)
KFrom(q, j, k) == IF 2 * Pow(q, Pow(2, k)) <= Pow(2, j * Pow(2, k)) THEN k ELSE KFrom(q, j, k + 1)
KOf(a, j) == KFrom(Pow(2, j) - a, j, 1)
BfRule == LET d == LeadingB(Ev.dcells)
              last == Ev.mtry[Len(Ev.mtry)] IN
          /\ last[2] = "acc"
          /\ \A i \in 1..(Len(Ev.mtry) - 1) : Ev.mtry[i][2] = "rej"
          /\ Ev.out = d * Pow(2, KOf(Ev.a, Ev.j)) + last[1]
          /\ Ev.words = (d + 1) + 2 * Len(Ev.mtry)

\* tiny p: d = 0 and the accepted m is 0, so the result is 0 whatever k is; every try with m >= 1
\* and the largest uniform draw must have been rejected (word accounting shows it)
BftRule == /\ Ev.mtry[Len(Ev.mtry)] = <<0, "acc">>
           /\ Ev.out = 0
           /\ Ev.words = 1 + 2 * Len(Ev.mtry)

\* StandardGeometric: sum of leading-zero counts of successive words up to the first word with a one bit
RECURSIVE SgSum(_)
SgSum(lz) == IF Len(lz) = 0 THEN 0 ELSE IF Head(lz) < 64 THEN Head(lz) ELSE 64 + SgSum(Tail(lz))
RECURSIVE SgWords(_)
SgWords(lz) == IF Len(lz) = 0 THEN 0 ELSE IF Head(lz) < 64 THEN 1 ELSE 1 + SgWords(Tail(lz))
SgeoRule == Ev.out = SgSum(Ev.lz) /\ Ev.words = SgWords(Ev.lz)

Rule == CASE Ev.op = "hist"   -> ~Ev.mixed /\ (~InRegime \/ HistRule)
          [] Ev.op = "ticket" -> ~InRegime \/ TicketRule
          [] Ev.op = "zipf0"  -> ~InRegime \/ Zipf0Rule
          [] Ev.op = "geo"    -> GeoRule
          [] Ev.op = "bf"     -> BfRule
          [] Ev.op = "bft"    -> BftRule
          [] Ev.op = "sgeo"   -> SgeoRule
          [] OTHER -> FALSE

TInit == l = 1 /\ kind = "trace" /\ par = <<>> /\ t = 0 /\ pc = "trace" /\ U = 0 /\ R = 0 /\ x = 0 /\ red = <<>> /\ out = 0 /\ words = 0
TNext == /\ l <= Len(Rec) /\ l' = l + 1 /\ UNCHANGED vars
         /\ IF Rule THEN TRUE ELSE PrintT(<<"TRACE-BAD", l, ToJson(Ev)>>)
TSpec == TInit /\ [][TNext]_<<vars, l>>

\* design-level identity behind Bringmann-Friedrich for dyadic p = a/2^j (checked as a state-free
\* ASSUME on small instances): sum_{m < 2^k} (1-p)^m * p = 1 - (1-p)^(2^k)
BfIdentity(a, j, k) ==
    LET q == Pow(2, j) - a          \* (1-p) numerator
        M == Pow(2, k)
        RECURSIVE S(_)
        S(m) == IF m < 0 THEN 0 ELSE Pow(q, m) * Pow(Pow(2, j), M - 1 - m) + S(m - 1)    \* sum q^m 2^(j(M-1-m))
    IN  a * S(M - 1) = Pow(Pow(2, j), M) - Pow(q, M)
ASSUME BfIdentity(1, 1, 1) /\ BfIdentity(1, 2, 2) /\ BfIdentity(3, 3, 1) /\ BfIdentity(5, 3, 1) /\ BfIdentity(1, 3, 2)

TraceAccepted ==
    LET d == TLCGet("stats").diameter IN
    IF d - 1 = Len(Rec) THEN TRUE
    ELSE PrintT(<<"TRACE-REJECTED", "first unmatched line", d, ToJson(Rec[d])>>) /\ FALSE
=============================================================================
