---------------------------- MODULE TraceCompose ----------------------------
(* C07 / C11 trace validation: paired executions on cloned RNG streams (random *)
(* and single-word-adversarial).                                               *)
EXTENDS Compose, TLC, Json, IOUtils
Rec == ndJsonDeserialize(IOEnv.TRACE)
VARIABLE l
Ev == Rec[l]

InUnit(x, ft) == LLE(FZero, x) /\ LLE(x, FOne(ft))

Rule ==
  CASE Ev.op = "r1" -> /\ Ev.res = "Ok"
                       /\ Ev.wa = Ev.wb                                              \* R2
                       /\ \A i \in 1..Len(Ev.a) : R1Judged(Ev.a[i], Ev.b[i], Ev.k) => R1OK(Ev.a[i], Ev.b[i], Ev.k)
    [] Ev.op = "r1x" -> /\ Ev.res = "Ok"
                        /\ Ev.wa = Ev.wb                                             \* R2 at scales beyond E
                        /\ \A i \in 1..Len(Ev.a) : R1xOK(Ev.a[i], Ev.b[i], Ev.k, Ev.emax)
    [] Ev.op = "r3" -> /\ Ev.res = "Ok" /\ Ev.wa = Ev.wb
                       /\ Ev.finite => Within(Ev.got, Ev.ref, Tol(Ev.fam))
    \* a call that consumed another number of words follows another construction: not judged (guard, counted by the check)
    \* Triangular / Pert under a general (non-dyadic) affine map: same words, and the image within 2^12 ordinals (the corners of the
    \* mapped distribution are rounded, so agreement is to about 1e-12 relative in f64 / 5e-4 in f32) where the image is not near zero
    [] Ev.op = "r3t" -> /\ Ev.res = "Ok" /\ Ev.wa = Ev.wb
                        /\ (Ev.finite /\ Ev.big) => Within(Ev.got, Ev.ref, 4096)
    [] Ev.op = "wire" -> /\ Ev.res = "Ok"
                         /\ Ev.gcls # "nan"                                  \* NaN is in no documented law, whatever the reference does
                         /\ (Ev.wa = Ev.wb) => (IF Ev.finite THEN Within(Ev.got, Ev.ref, WireTol(Ev.fam)) ELSE Ev.same_class)
    [] Ev.op = "msh" -> Ev.res = "Ok" /\ (Ev.finite => MshOK(Ev))
    [] Ev.op = "tri" -> Ev.res = "Ok" /\ Ev.words = 1 /\ TriOK(Ev.mn, Ev.mx, Ev.md, Ev.fn, Ev.xq, Ev.yq)
    [] Ev.op = "zs" -> ZScoreOK(Ev.m, Ev.s, Ev.z, Ev.r256)
    [] Ev.op = "id" -> Ev.res = "Ok" /\ Ev.wa = Ev.wb /\ (Ev.finite => Within(Ev.got, Ev.ref, 1))      \* LogNormal = exp(Normal)
    [] Ev.op = "dir" ->
         /\ Ev.res = "Ok"
         /\ Len(Ev.out) = Ev.n                                                       \* exactly alpha.len() components
         /\ Ev.nonan /\ \A i \in 1..Len(Ev.out) : InUnit(Ev.out[i], Ev.ft)            \* each in [0, 1]
         /\ Within(Ev.sum, FOne(Ev.ft), 4 + Ev.n)                                    \* sums to 1 within a few ulp
         /\ Ev.api_same                                                              \* sample() and sample_to_slice agree
         /\ (Ev.wired /\ Ev.stream = "random") =>                                   \* (random streams; an adversarial word can force u = 0 or 1) the support is the OPEN simplex: a component is exactly 0 only by underflow,
              \A i \in 1..Len(Ev.out) :                                             \* whose probability is about tiny^alpha (tiny = 2^-1074 / 2^-149): below 2^-40 it must not happen
                 (Ev.alpha64[i] * (IF Ev.ft = "f64" THEN 1074 ELSE 149) >= 64 * 40) => ~LEQ(Ev.out[i], FZero)
         /\ Ev.wired =>                                                              \* dyadic alpha: one of the two documented constructions
              /\ Ev.sbp = SBParams(Ev.alpha64) /\ Ev.gnp = GNParams(Ev.alpha64)     \* the harness built them with the right parameters
              /\ \/ (AllWithin(Ev.out, Ev.sb, 4) /\ Ev.w = Ev.wsb)
                 \/ (AllWithin(Ev.out, Ev.gn, 4) /\ Ev.w = Ev.wgn)
    [] OTHER -> FALSE

TInit == l = 1
TNext == /\ l <= Len(Rec) /\ l' = l + 1
         /\ IF Rule THEN TRUE ELSE PrintT(<<"TRACE-BAD", l, ToJson(Ev)>>)
TSpec == TInit /\ [][TNext]_l
TraceAccepted ==
    LET d == TLCGet("stats").diameter IN
    IF d - 1 = Len(Rec) THEN TRUE
    ELSE PrintT(<<"TRACE-REJECTED", "first unmatched line", d, ToJson(Rec[d])>>) /\ FALSE
=============================================================================
