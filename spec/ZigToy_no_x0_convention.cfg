SPECIFICATION Spec
CONSTANTS
  M = 48
  Variant = "no_x0_convention"
INVARIANT InLayer
CHECK_DEADLOCK FALSE
