SPECIFICATION Spec
CONSTANTS
  M = 48
  Variant = "rect_uses_xi"
INVARIANT InLayer
CHECK_DEADLOCK FALSE
