----------------------------- MODULE TraceTree -----------------------------
(* Trace validation: a history recorded from the real WeightedTreeIndex<W>  *)
(* (harness `rdv tree-drive`, one ndjson line per public call, written at   *)
(* the call's return, error and panic paths included) is accepted only if   *)
(* every line is explained by the corresponding WeightedTree action with    *)
(* the logged arguments AND the logged observations: result, pop value,     *)
(* len, is_valid, get(i) for the touched index, its ancestors and a few     *)
(* random indices; for `sample` events the returned index for the target    *)
(* the scripted word selects.  All invariants of WeightedTree are evaluated *)
(* in every state along the trace.                                          *)
EXTENDS WeightedTree, TLC, Json, IOUtils

TraceM == atoi(IOEnv.M)
Rec    == ndJsonDeserialize(IOEnv.TRACE)

VARIABLE l                       \* next line of the trace
tvars == <<sub, ws, res, ret, l>>

Ev == Rec[l]

Matches(r) ==
    /\ r.res = Ev.res
    /\ r.ret = Ev.ret
    /\ Len(r.sub) = Ev.len
    /\ (Total(r.sub) > 0) = Ev.valid
    /\ \A k \in 1..Len(Ev.gi) : Get(r.sub, Ev.gi[k]) = Ev.gv[k]

Step(r) == Matches(r) /\ Apply(r)

TNew    == Ev.op = "new"    /\ Step(NewF(sub, ws, Ev.l))
TPush   == Ev.op = "push"   /\ Step(PushF(sub, ws, Ev.w))
TPop    == Ev.op = "pop"    /\ Step(PopF(sub, ws))
TUpdate == Ev.op = "update" /\ Ev.i < Len(sub) /\ Step(UpdateF(sub, ws, Ev.i, Ev.w))

\* try_sample does not change the tree.  Ev.w is the target the scripted word
\* selects (in model scale; -1 when it falls between the two scales of the
\* embedding, in which case only the zero-weight rule is judged).
TSample ==
    /\ Ev.op = "sample"
    /\ UNCHANGED <<sub, ws, res, ret>>
    /\ IF Total(sub) = 0 THEN Ev.res = "InsufficientNonZero"
       ELSE /\ Ev.res = "Ok"                               \* never a panic, never an error
            /\ Ev.i \in 0..(Len(sub) - 1)
            /\ ws[Ev.i + 1] > 0                            \* zero weight is never returned
            /\ (Ev.w >= 0) => (Ev.i = SampleOutcome(sub, Ev.w))

\* Float weights that are not small integers (events "fsample"): the integer model
\* does not predict the index; the rule the property states is evaluated on the
\* logged observation alone.  A violating event is printed and consumed, so that
\* the rest of the trace is still examined (these events carry no model state).
\* (A float tree whose root total has been driven to a negative or zero value by
\* accumulated rounding although some weight is non-zero is outside the statement:
\* is_valid() is false and the weights are not all zero - not judged.)
FSampleRule == /\ Ev.valid => (Ev.res = "Ok" /\ Ev.i >= 0 /\ Ev.i < Ev.len /\ Ev.wpos)
               /\ (Ev.len = 0 \/ Ev.allzero) => Ev.res = "InsufficientNonZero"
TFSample == /\ Ev.op = "fsample"
            /\ UNCHANGED <<sub, ws, res, ret>>
            /\ IF FSampleRule THEN TRUE ELSE PrintT(<<"TRACE-BAD", l, ToJson(Ev)>>)

TInit == Init /\ l = 1
TNext == /\ l <= Len(Rec)
         /\ l' = l + 1
         /\ (TNew \/ TPush \/ TPop \/ TUpdate \/ TSample \/ TFSample)
TSpec == TInit /\ [][TNext]_tvars

\* acceptance: every line consumed
TraceAccepted ==
    LET d == TLCGet("stats").diameter IN
    IF d - 1 = Len(Rec) THEN TRUE
    ELSE /\ PrintT(<<"TRACE-REJECTED", "first unmatched line", d, ToJson(Rec[d])>>)
         /\ FALSE
=============================================================================
