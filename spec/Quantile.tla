------------------------------ MODULE Quantile ------------------------------
(***************************************************************************)
(* C01, the inverse-CDF samplers (Cauchy, Pareto, Weibull, Gumbel,         *)
(* Frechet, Triangular): a sampler that consumes ONE random word w and     *)
(* returns S(w) induces, under the uniform measure on 64-bit words, the    *)
(* law  P(X <= x) = |{w : S(w) <= x}| / 2^64  - a ticket count, no         *)
(* statistics.  The documented CDF F is known at the anchors of            *)
(* QuantileTable (mpmath): the law is the documented one at anchor x iff   *)
(*        2^64 F(x - d)  <=  count(x)  <=  2^64 F(x + d)                   *)
(* up to the resolution of the uniform draw (2^-24 for f32, 2^-53 for      *)
(* f64; two steps of slack: the open/closed end of the uniform and the     *)
(* redrawn word of Gumbel/Frechet).  d = 2^-20 |x| absorbs the rounding of *)
(* x to the float type and of S's own arithmetic.                          *)
(*                                                                         *)
(* count(x) is exact for f32 (all 2^24 values of the bits the uniform      *)
(* uses are swept) and, for f64, the sum over the two halves of the word   *)
(* range of a bisection result certified by its witnesses                  *)
(*   S(w* ) <= x < S(w* + 1)   (nondecreasing piece, mirrored otherwise)   *)
(* given monotonicity inside each half, which is checked on sorted random  *)
(* words and on the boundary lattice ("mono" events).                      *)
(***************************************************************************)
EXTENDS Ord, QuantileTable, Sequences, Integers, IOUtils

\* the tier's table (environment variable TIER, default: the quick table)
QT == IF "TIER" \in DOMAIN IOEnv /\ IOEnv.TIER = "thorough" THEN QTableT ELSE QTable

Step(ft) == IF ft = "f32" THEN <<0, 524288, 0>>      \* 2^40 = one f32 lattice step in units of 2^-64
            ELSE <<0, 0, 2048>>                       \* 2^11
Slack(ft) == LAdd(Step(ft), Step(ft))

CaseOf(id) == QT[id]

\* the law at one anchor
\* excl: words on which the call draws a second word (the redraw of Gumbel / Frechet at u = 1), not counted in cnt
CountOK(ft, cnt, excl, a) == /\ LLE(excl, Slack(ft))
                             /\ LLE(a.lo, LAdd(LAdd(cnt, excl), Slack(ft)))
                             /\ LLE(cnt, LAdd(a.hi, Slack(ft)))

\* table sanity, checked by TLC before anything is judged: brackets are ordered, the CDF is nondecreasing
\* along the anchors, the median anchor brackets 1/2
Half == <<B, 0, 0>>                                   \* 2^63
TableOK == \A c \in 1..Len(QT) :
              LET A == QT[c].anchors IN
              /\ QT[c].id = c
              /\ \A k \in 1..Len(A) : LLE(A[k].lo, A[k].hi)
              /\ \A k \in 1..(Len(A) - 1) : LLE(A[k].lo, A[k + 1].lo) /\ LLE(A[k].hi, A[k + 1].hi)
              /\ \E k \in 1..Len(A) : A[k].p = "1/2" /\ LLE(A[k].lo, Half) /\ LLE(Half, A[k].hi)
ASSUME TableOK

\* every reachable f32 output lies in the support (all 2^24 draws): finite, and inside the documented interval
\* (Triangular: up to 4 ordinals beyond the bounds, as C03 states)
SupOK(e) == /\ e.res = "Ok" /\ e.nan = 0 /\ e.pinf = 0 /\ e.ninf = 0 /\ e.hasfin
            /\ CASE e.fam = "Pareto"     -> LLE(e.po[1], e.min)
                 [] e.fam = "Weibull"    -> LLE(FZero, e.min)
                 [] e.fam = "Frechet"    -> LLE(e.po[1], e.min)
                 [] e.fam = "Triangular" -> LLE(e.po[1], LAdd(e.min, <<0, 0, 4>>)) /\ LLE(e.max, LAdd(e.po[2], <<0, 0, 4>>))
                 [] OTHER -> TRUE

\* monotone sequences of ordinals
NonDecr(s) == \A i \in 1..(Len(s) - 1) : LLE(s[i], s[i + 1])
NonIncr(s) == \A i \in 1..(Len(s) - 1) : LLE(s[i + 1], s[i])

\* a bisection witness for one half of the word range (domain of `dom` <= 2^63 single-word calls): n of them satisfy S(w) <= x.
\*   dir =  1 (nondecreasing): they are the first n words:  S(last in) <= x < S(first out)
\*   dir = -1 (nonincreasing): they are the last n words:   S(first in) <= x < S(last out)
\* `inv` / `outv` are the ordinals of S at the two words adjacent to the cut (absent when the cut is at an end)
WitnessOK(wt, xo) ==
    /\ wt.has_in  => LLE(wt.inv, xo)
    /\ wt.has_out => LLT(xo, wt.outv)
    /\ wt.has_in  = ~LEQ(wt.n, LZero)
    /\ wt.has_out = ~LEQ(wt.n, wt.dom)
    /\ LLE(wt.n, wt.dom) /\ LLE(wt.dom, Half)
=============================================================================
