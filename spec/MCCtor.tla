------------------------------- MODULE MCCtor -------------------------------
(* C04, design level and case generation: enumerates, per public            *)
(* constructor, the complete cross product of named points of its argument *)
(* lattice, checks that the documented verdict table (Constructors.tla) is *)
(* total and rejects NaN wherever the documentation says so, and prints    *)
(* every case for replay into the real constructors (f32 and f64).         *)
EXTENDS Constructors, TLC, Json

VARIABLE case
vars == <<case>>

Full == ({Names[i] : i \in 1..Len(Names)} \ {"0"}) \cup {"NaN", "-0", "+0"}
A3   == {"NaN", "-inf", "-1", "-minSub", "-0", "+0", "minSub", "MINPOS", "0.5", "1", "2", "1e10", "MAX", "+inf"}
AP   == {"NaN", "-inf", "-2", "-1", "-0", "+0", "0.5", "1", "2", "+inf"}
APS  == {"NaN", "-1", "-0", "+0", "minSub", "1", "2", "+inf"}
AD   == {"NaN", "-inf", "-1", "-0", "+0", "minSub", "maxSub", "MINPOS", "0.1", "1", "MAX", "+inf"}
AI   == {INames[i] : i \in 1..Len(INames)}
Q    == {-4, -2, 0, 1, 2, 3, 4, 6, 8}

C1 == {"Exp::new", "ChiSquared::new", "StudentT::new", "Geometric::new", "Zeta::new", "Poisson::new"}
C2 == {"Normal::new", "LogNormal::new", "Normal::from_mean_cv", "LogNormal::from_mean_cv", "Gamma::new",
       "FisherF::new", "Beta::new", "Cauchy::new", "Pareto::new", "Weibull::new", "Gumbel::new",
       "InverseGaussian::new", "NormalInverseGaussian::new", "Zipf::new"}
C3 == {"Triangular::new", "Frechet::new", "SkewNormal::new"}

Case(ctor, kind, names) == [ctor |-> ctor, kind |-> kind, names |-> names]

Ctors == C1 \cup C2 \cup C3 \cup {"Pert::with_mode", "Dirichlet::new", "Binomial::new", "Hypergeometric::new", "Pert::with_mean"}

CasesOf(c) ==
    IF c \in C1 THEN {Case(c, "f", <<x>>) : x \in Full}
    ELSE IF c \in C2 THEN {Case(c, "f", <<x, y>>) : x \in Full, y \in Full}
    ELSE IF c \in C3 THEN {Case(c, "f", <<x, y, z>>) : x \in A3, y \in A3, z \in A3}
    ELSE IF c = "Pert::with_mode" THEN {Case(c, "f", <<a, b, cc, d>>) : a \in AP, b \in AP, cc \in AP, d \in APS}
    ELSE IF c = "Dirichlet::new" THEN {Case(c, "f", v) : v \in UNION {[1..k -> AD] : k \in 0..3}}
    ELSE IF c = "Binomial::new" THEN {Case(c, "if", <<n, p>>) : n \in AI, p \in Full}
    ELSE IF c = "Hypergeometric::new" THEN {Case(c, "i", <<n, k, s>>) : n \in AI, k \in AI, s \in AI}
    ELSE {Case(c, "q", <<a, b, cc, d>>) : a \in Q, b \in Q, cc \in Q, d \in {1, 2, 4}}

\* name of |x| for a named point x
AbsName(nm) == CASE nm = "-inf" -> "+inf" [] nm = "-MAX" -> "MAX" [] nm = "-1e10" -> "1e10" [] nm = "-2" -> "2"
                 [] nm = "-1-ulp" -> "1+ulp" [] nm = "-1" -> "1" [] nm = "-1+ulp" -> "1-ulp" [] nm = "-0.5" -> "0.5"
                 [] nm = "-MINPOS" -> "MINPOS" [] nm = "-maxSub" -> "maxSub" [] nm = "-minSub" -> "minSub"
                 [] nm = "-0" -> "+0" [] OTHER -> nm

\* the abstract argument vector of a case
Args(cs) ==
    IF cs.kind = "f" /\ cs.ctor = "NormalInverseGaussian::new"
      THEN <<Pt(cs.names[1]), Pt(cs.names[2]), Pt(AbsName(cs.names[2]))>>
    ELSE IF cs.kind = "f" THEN [i \in 1..Len(cs.names) |-> Pt(cs.names[i])]
    ELSE IF cs.kind = "i" THEN [i \in 1..Len(cs.names) |-> IPt(cs.names[i])]
    ELSE IF cs.kind = "if" THEN <<IPt(cs.names[1]), Pt(cs.names[2])>>
    ELSE cs.names

AllowedOf(cs, ft) == IF cs.kind = "q" THEN AllowedWithMean(cs.names[1], cs.names[2], cs.names[3], cs.names[4])
                     ELSE Allowed(cs.ctor, ft, Args(cs))

\* two levels so that TLC's workers share the enumeration: one initial state per constructor
Init == case \in {Case(c, "group", <<>>) : c \in Ctors}
Next == case.kind = "group" /\ case' \in CasesOf(case.ctor)
Spec == Init /\ [][Next]_vars

\* design-level properties of the table
Total == case.kind # "group" => \A ft \in {"f32", "f64"} : AllowedOf(case, ft) # {} /\ "UNKNOWN-CTOR" \notin AllowedOf(case, ft)

\* arguments the documentation leaves unrestricted (NaN is not rejected there)
Unrestricted(ctor) == CASE ctor \in {"Normal::new", "LogNormal::new", "Normal::from_mean_cv", "Cauchy::new", "SkewNormal::new"} -> {1}
                        [] OTHER -> {}
NaNRejected ==
    case.kind = "f" =>
      \A i \in 1..Len(case.names) :
         (case.names[i] = "NaN" /\ i \notin Unrestricted(case.ctor))
             => \A ft \in {"f32", "f64"} : "Ok" \notin AllowedOf(case, ft) \/ "ANY" \in AllowedOf(case, ft)

\* Ok is admissible only alone (or in an unspecified region): the table is deterministic about success
OkAlone == case.kind # "group" => \A ft \in {"f32", "f64"} :
             LET al == AllowedOf(case, ft) IN
             ("Ok" \in al /\ Cardinality(al) > 1) =>
                 (case.ctor \in {"Gamma::new", "Poisson::new", "Hypergeometric::new", "LogNormal::from_mean_cv"})

Emit == case.kind # "group" => PrintT(<<"CASE", ToJson(case)>>)
=============================================================================
