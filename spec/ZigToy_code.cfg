SPECIFICATION Spec
CONSTANTS
  M = 48
  Variant = "code"
INVARIANT InLayer
CHECK_DEADLOCK FALSE
