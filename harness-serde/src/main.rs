//! C15 harness: the object-model replay of ../harness built against rand_distr with feature
//! "serde"; adds the RoundTrip action (serde_json, falling back to toml for values whose
//! fields JSON cannot carry).
#[path = "../../harness/src/rng.rs"]
mod rng;
#[path = "../../harness/src/util.rs"]
mod util;
#[path = "../../harness/src/tw.rs"]
mod tw;
#[path = "../../harness/src/reg.rs"]
mod reg;
#[path = "../../harness/src/obj.rs"]
mod obj;

fn main() {
    util::install_quiet_panic_hook();
    let args: Vec<String> = std::env::args().collect();
    let rest = &args[1..];
    let code = match args.get(1).map(|s| s.as_str()).unwrap_or("") {
        "obj-replay" => obj::replay_with(rest, &|o| o.roundtrip(), true),
        "dbg" => {
            let reg = reg::registry();
            let i: usize = args[2].parse().unwrap();
            let a = (reg[i].make)().unwrap();
            let b = (reg[i].make)().unwrap();
            let c = a.clone_obj();
            let d = c.roundtrip().unwrap().unwrap();
            println!("{}\n a==b {:?} a==c {:?} a==d {:?} d==b {:?}\n{}\n{}", reg[i].label(), a.eq_obj(b.as_ref()), a.eq_obj(c.as_ref()), a.eq_obj(d.as_ref()), d.eq_obj(b.as_ref()), a.dbg(), d.dbg());
            0
        }
        _ => { eprintln!("unknown subcommand"); 2 }
    };
    std::process::exit(code);
}
